"""C14 — timeseries, multi-tower and parallel drivers equal the individual single runs.

Tie between bldfm.interface.run_bldfm_timeseries / run_bldfm_multitower / run_bldfm_parallel and Model/Drivers.v:
  (1) exact correspondence with the real code: structure (keys, key order, list lengths, tower names, timestamps) and
      BIT-equality of every grid/conc/flx array of every entry with the individual run_bldfm_single call, over
      (towers x steps) shapes 1x1 .. 3x4, the three strategies, worker counts 1..5 (and None = the configured count),
      per-task delays injected by wrapping bldfm.interface.run_bldfm_single BEFORE the pool forks (children inherit the
      wrapper), parent bldfm.config.NUM_THREADS 1 and 4, cache on/off, repeated met conditions;
  (2) the completion order actually observed (logged by the wrapper from inside the workers) is fed as the schedule
      into the Coq model (par_towers / par_time / par_both over integer tokens) and the model's result is compared
      inside Coq with the structure the real driver returned; serial drivers against `multitower`.
The implementation side runs in sub-processes (`python c14.py job in.json out.json`), each in its own scratch cwd."""
import hashlib
import json
import os
import random
import shutil
import sys
import time

import core

THEOREMS = ["C14_timeseries", "C14_multitower", "C14_multitower_duplicates", "C14_pool_map_any_order",
            "C14_parallel_eq_serial", "C14_both_reassembly", "C14_shared_cache_safe", "C14_worker_runs_serial_kernel"]
TRUSTED = [
    "Model/Drivers.v is hand-written; tied to interface.run_bldfm_timeseries/multitower/parallel (B) by harness/py2coq_drivers.py: the CURRENT source of run_bldfm_timeseries, run_bldfm_multitower, _worker_single, _worker_timeseries and the three branches of run_bldfm_parallel is translated statement by statement (fail closed outside the fragment: for/append, dict item assignment keyed by tower.name, comprehensions, range/len/enumerate, slices, pool.map, the strategy dispatch) into GenDrivers.v and Bridge/DriversBridge.v re-proves gen = model for all configurations, towers lists, step counts, worker counts and valid schedules on every run; and (A) by exact differential execution (structure + bit-equality with run_bldfm_single) and by replaying the OBSERVED completion orders through the model",
    "harness/py2coq_drivers.py (driver translator): the AST walk, its kind checker, the reading of `xs.append(e)` as snoc, of `d[k] = v` on a dict built in the function as the model's dict_set, of `for` as a left fold over the re-bound variables, of x[a:b] on non-negative indices as firstn (b - a) (skipn a x), and of list(pool.map(f, tasks)) as map f tasks (submission order); what it ignores for the value: docstrings, logger calls with side-effect-free arguments, `cache = _make_cache(config)` handed to run_bldfm_single as cache= only, and the four state-reset statements of the workers (whose presence and order it requires)",
    "concurrent.futures.ProcessPoolExecutor.map yields results in submission order (documented; modelled as pool_map, proved order-independent in the model, exercised with delayed workers on the real pool)",
    "Python dict semantics (insertion order, overwrite keeps position) as modelled by dict_set",
    "real OS scheduling is only exercised (random and adversarial per-task delays), not enumerated",
    "Model/PoolCache.v: np.load either returns the complete content of a cache file or raises; os.replace is atomic (POSIX)",
    "Model/KernelCache.v: numba's on-disk cache keys an entry by function name + source + type signature and NOT by the `parallel` option; a process forked from a parent that started OpenMP threads is terminated when it runs threaded numba code (numba omp threading layer). Both are numba behaviour, modelled; the resulting survive/terminate outcome and whether a serial parent was handed threaded code are observed on the real code on every run",
]
ASSUMPTIONS = [
    "run_bldfm_single is a pure function of (configuration, tower, time index): the same in the parent and in a forked worker with threads reset (C12), and with a cache object present (C15 transparency); both are additionally MEASURED here by bit-comparison",
    "bridge (B): run_bldfm_single(config, tower, met_index=i[, surface_flux=<the caller's argument, handed on unchanged>][, cache=_make_cache(config)]) is the abstract w_single config tower i; the serial drivers hand surface_flux on, the parallel driver documents that it does not, so gen_parallel_<s> = gen_multitower speaks about surface_flux=None (or about w_single of the workers); config.towers, config.met.n_timesteps, config.parallel.max_workers and tower.name are plain attribute reads without side effects",
    "tower names are unique where the property speaks of 'keyed by tower name' (C14_multitower); the equality parallel = serial is proved without it",
    "every submitted task completes exactly once (valid_sched: the completion events are a permutation of the submissions)",
    "process start method fork (the default of ProcessPoolExecutor on Linux with Python 3.12)",
    "the numba on-disk cache is private to the check run (fresh directories under build/C14): threaded parents, serial parents, and serial parents after a threaded process populated the cache are three separate scenarios",
]

# --------------------------------------------------------------------------------------------------
# specs (no bldfm import needed)

NAMES = ["zeta", "alpha", "mid", "beta", "omega", "gamma"]  # configuration order differs from sorted order


def make_group(rng, nt, n, threads, cache, dup_names=False, user_flux=False):
    taken = set()

    def dist(k, lo, hi, q=1024):
        out = []
        while len(out) < k:
            v = lo + rng.randrange(0, int((hi - lo) * q)) / q
            if v not in taken:
                taken.add(v)
                out.append(v)
        return out

    nx, ny = rng.choice([(6, 8), (8, 6)])
    dom = {"nx": nx, "ny": ny, "xmax": 10.0 * nx + dist(1, 0, 2)[0], "ymax": 10.0 * ny + dist(1, 2, 4)[0],
           "nz": rng.choice([2, 3]), "ref_lat": 50.0, "ref_lon": 11.0}
    if rng.random() < 0.7:
        dom["modes"] = rng.choice([[4, 6], [6, 4], [4, 4]])
    explicit_halo = rng.random() < 0.6
    if explicit_halo:
        dom["halo"] = dist(1, 12.0, 28.0)[0]
    lv = rng.choice(["default", "full", "ol"])
    if lv == "full":
        dom["full_output"] = True
    elif lv == "ol":
        dom["output_levels"] = sorted(rng.sample(range(dom["nz"] + 1), 2))
    order = rng.sample(NAMES, nt)
    if sorted(order) == order and nt > 1:
        order.reverse()
    zs = dist(nt, 2.5, 6.0)
    towers = [{"name": order[k] if not dup_names else order[k % max(1, nt - 1)],
               "lat": 50.0 + (2 + 3 * k + rng.randrange(3)) / 2 ** 14, "lon": 11.0 + (5 + 4 * k + rng.randrange(4)) / 2 ** 14,
               "z_m": zs[k]} for k in range(nt)]
    # met: lists of length n for a random non-empty subset of fields; repeated conditions inside the series
    repeat = n >= 3 and rng.random() < 0.7
    fields = {"ustar": (0.3, 0.55), "mol": (-160.0, -40.0), "wind_speed": (2.5, 5.5), "wind_dir": (1.0, 359.0)}
    as_list = {f for f in fields if rng.random() < 0.6} or {rng.choice(sorted(fields))}
    met = {}
    for f, (lo, hi) in fields.items():
        if f in as_list:
            v = dist(n, lo, hi)
            if repeat:
                v[2] = v[0]
                if n == 4 and rng.random() < 0.5:
                    v[3] = v[1]
            met[f] = v
        else:
            met[f] = dist(1, lo, hi)[0]
    if rng.random() < 0.35:
        met["z0"] = dist(1, 0.03, 0.2)[0]
        met.pop("ustar")
        if not any(isinstance(v, list) for v in met.values()):
            met["wind_dir"] = dist(n, 1.0, 359.0)
    if rng.random() < 0.5:
        met["timestamps"] = ["2024-06-%02dT%02d:00" % (1 + rng.randrange(28), h) for h in rng.sample(range(24), n)]
    sol = {"closure": rng.choice(["MOST", "MOSTM", "CONSTANT"]), "precision": rng.choice(["single", "double"]),
           "footprint": True if cache else rng.random() < 0.5}
    raw = {"domain": dom, "towers": towers, "met": met, "solver": sol,
           "parallel": {"use_cache": cache, "max_workers": rng.choice([1, 2, 3])}}
    # the configured thread count (what the CLI hands to the parent) is a legitimate option of a parallel run too:
    # pool workers must stay serial whatever it says, in particular under a parent that already runs threaded
    if threads > 1 or rng.random() < 0.3:
        raw["parallel"]["num_threads"] = rng.choice([2, 4]) if threads > 1 else rng.choice([1, 2])
    # an idealised set-up built programmatically: no reference origin, the towers carry their local position directly
    # (TowerConfig(..., x=..., y=...) or tower.x = ... after construction, as the package's own manuscript scripts do)
    local_xy = None
    if rng.random() < 0.25:
        dom.pop("ref_lat", None)
        dom.pop("ref_lon", None)
        local_xy = [(dist(1, 0.2 * dom["xmax"], 0.8 * dom["xmax"])[0], dist(1, 0.2 * dom["ymax"], 0.8 * dom["ymax"])[0]) for _ in range(nt)]
    return {"raw": raw, "nt": nt, "n": n, "threads": threads, "cache": cache, "repeat": repeat, "dup": dup_names, "local_xy": local_xy,
            "explicit_halo": explicit_halo, "flux_seed": rng.randrange(1 << 30) if user_flux else None, "runs": []}


def make_colocated(rng, nt, n, reps):
    """towers at the same place and height under different names, constant conditions, cache on: every solve of every
    worker has the same cache key, so the pool workers of strategy "towers" share one cache file"""
    g = make_group(rng, nt, n, 1, True)
    t0 = g["raw"]["towers"][0]
    if rng.random() < 0.5:
        # same mast position and height, different names
        g["raw"]["towers"] = [dict(t0, name=NAMES[k % len(NAMES)] + ("" if k < len(NAMES) else str(k))) for k in range(nt)]
        g["colocated_kind"] = "same-position"
    else:
        # different positions but no reference point in the domain section: every tower keeps the local coordinates
        # (0.0, 0.0); equal measurement heights
        g["raw"]["towers"] = [{"name": NAMES[k % len(NAMES)] + ("" if k < len(NAMES) else str(k)), "lat": 50.0 + (3 + 5 * k) / 2 ** 14,
                               "lon": 11.0 + (2 + 3 * k) / 2 ** 14, "z_m": t0["z_m"]} for k in range(nt)]
        g["raw"]["domain"].pop("ref_lat", None)
        g["raw"]["domain"].pop("ref_lon", None)
        g["colocated_kind"] = "no-reference-point"
    u = 0.3 + rng.randrange(1, 200) / 1024
    g["raw"]["met"] = {"ustar": [u] * n, "mol": -40.0 - rng.randrange(1, 100), "wind_speed": 3.0 + rng.randrange(1, 100) / 64,
                       "wind_dir": 10.0 + rng.randrange(1, 300)}
    g["raw"]["domain"]["halo"] = 12.0 + rng.randrange(1, 600) / 64
    g["explicit_halo"] = True
    g["repeat"] = True
    g["colocated"] = True
    runs = [{"driver": "multitower"}]
    for r in range(reps):
        for w in (nt, 2):
            runs.append({"driver": "parallel", "strategy": "towers", "workers": w, "delay": "none"})
    runs.append({"driver": "parallel", "strategy": "both", "workers": 2, "delay": "random"})
    for r in runs:
        r.setdefault("delay", "none")
        r["dseed"] = rng.randrange(1 << 30)
    g["runs"] = runs
    return g


def add_runs(rng, g, workers_list, full=True):
    nt, n = g["nt"], g["n"]
    runs = [{"driver": "timeseries", "tower": k} for k in range(nt)] + [{"driver": "multitower"}]
    if g["flux_seed"] is not None:
        g["runs"] = [dict(r, delay="none", dseed=0, flux=True) for r in runs]
        return
    for strat in ("towers", "time", "both"):
        for w in workers_list:
            runs.append({"driver": "parallel", "strategy": strat, "workers": w,
                         "delay": rng.choice(["reverse", "random", "random", "none"]) if full else "reverse"})
    for r in runs:
        r.setdefault("delay", "none")
        r["dseed"] = rng.randrange(1 << 30)
    g["runs"] = runs


def gen_groups(ctx_rng, thorough):
    groups = []
    reps = 8 if thorough else 1
    for rep in range(reps):
        for nt in (1, 2, 3):
            for n in (1, 2, 3, 4):
                for threads in (1, 4):
                    for cache in (False, True):
                        g = make_group(ctx_rng, nt, n, threads, cache)
                        add_runs(ctx_rng, g, [1, 2, 3, 4, 5] + ([None] if ctx_rng.random() < 0.5 else []))
                        groups.append(g)
    # duplicate tower names (dict semantics of the model) and user flux through the serial drivers
    for nt, n in ((2, 2), (3, 2), (3, 3)) if not thorough else ((2, 1), (2, 2), (3, 2), (3, 3), (3, 4)):
        g = make_group(ctx_rng, nt, n, 1, False, dup_names=True)
        add_runs(ctx_rng, g, [1, 3])
        groups.append(g)
        g = make_group(ctx_rng, nt, n, 1, ctx_rng.random() < 0.5, user_flux=True)
        add_runs(ctx_rng, g, [])
        groups.append(g)
    # numba's on-disk cache already holds code compiled by a threaded (NUM_THREADS > 1) process; parent with 1 thread
    for nt, n in ((1, 1), (2, 2), (3, 2)) if not thorough else ((1, 1), (2, 2), (3, 2), (2, 3), (3, 4)):
        g = make_group(ctx_rng, nt, n, 1, False)
        g["numba_history"] = "after-threaded"
        add_runs(ctx_rng, g, [1, 2, 3])
        groups.append(g)
    # co-located towers with the cache on: the workers of strategy "towers" share cache files
    for nt, n in ((3, 3), (4, 4), (5, 4)) if not thorough else ((2, 2), (3, 3), (4, 4), (5, 4), (5, 3), (4, 2)):
        groups.append(make_colocated(ctx_rng, nt, n, 4 if not thorough else 12))
    for j, g in enumerate(groups):
        g["id"] = j
    return groups


# --------------------------------------------------------------------------------------------------
# implementation side (sub-process)

STATE = {"run": "init", "delay": "none", "dseed": 0, "order": {}, "log": None, "unit": 0.004}


def task_delay(name, i):
    mode = STATE["delay"]
    if mode == "none":
        return 0.0
    if mode == "reverse":  # the earlier a task is submitted the longer it takes
        rank = STATE["order"].get("%s|%d" % (name, i), 0)
        return STATE["unit"] * (1 + rank)
    h = hashlib.sha1(("%d|%s|%d" % (STATE["dseed"], name, i)).encode()).digest()
    return STATE["unit"] * 6 * (int.from_bytes(h[:4], "big") / 2 ** 32)


def install_wrapper(itf):
    import inspect

    orig = itf.run_bldfm_single
    sig = inspect.signature(orig)

    def run_bldfm_single(*a, **k):
        ba = sig.bind(*a, **k)
        tower, i = ba.arguments["tower"], ba.arguments.get("met_index", 0)
        d = task_delay(tower.name, i)
        if d > 0:
            time.sleep(d)
        r = orig(*a, **k)
        if STATE["log"]:
            fd = os.open(STATE["log"], os.O_WRONLY | os.O_APPEND | os.O_CREAT)
            try:
                os.write(fd, ("%s\t%s\t%.4f\t%d\t%d\t%.6f\n" % (STATE["run"], tower.name, tower.z_m, i, os.getpid(), time.monotonic())).encode())
            finally:
                os.close(fd)
        return r

    run_bldfm_single.__wrapped__ = orig
    itf.run_bldfm_single = run_bldfm_single
    return orig


RUN_TIMEOUT = float(os.environ.get("C14_RUN_TIMEOUT", "90"))  # seconds; a driver run takes well under a second
HANGS = [0]  # hung runs seen by this shard process: afterwards the patience is short, after three parallel runs are skipped
JOB = {"done": [], "pending": [], "out": None, "current": None}


def hard_abort():
    """the driver did not even return after its workers were killed (the parent itself is stuck): give up on this
    shard, report what is known, and leave"""
    cur = JOB["current"]
    out = list(JOB["done"])
    if cur:
        out.append({"id": cur[0], "run": cur[1], "error": "HANG: run %r did not return within %.0f s, not even %.0f s after its workers had been killed; the shard process gave up" % (cur[1], RUN_TIMEOUT, 15.0)})
    for gid in JOB["pending"]:
        if not cur or gid != cur[0]:
            out.append({"id": gid, "skipped": True, "error": "not run: the shard process gave up after a hang in group %s" % (cur[0] if cur else "?")})
    out.append({"probe_put": "unknown/unknown"})
    try:
        json.dump(out, open(JOB["out"], "w"))
    finally:
        os._exit(0)


def kill_children():
    """SIGKILL the direct children of this process (hung pool workers): the executor then reports a broken pool"""
    import signal

    me = os.getpid()
    for d in os.listdir("/proc"):
        if d.isdigit():
            try:
                with open("/proc/%s/stat" % d) as f:
                    st = f.read()
                if int(st.rsplit(")", 1)[1].split()[1]) == me:
                    os.kill(int(d), signal.SIGKILL)
            except Exception:
                pass


def eq_arrays(a, b):
    import numpy as np

    try:
        xs = [a["grid"][0], a["grid"][1], a["grid"][2], a["conc"], a["flx"]]
        ys = [b["grid"][0], b["grid"][1], b["grid"][2], b["conc"], b["flx"]]
        for x, y in zip(xs, ys):
            x, y = np.asarray(x), np.asarray(y)
            if x.dtype != y.dtype or x.shape != y.shape or x.tobytes() != y.tobytes():
                return False
        return True
    except Exception:
        return False


def eq_labels(a, b):
    try:
        return (a["tower_name"] == b["tower_name"] and tuple(a["tower_xy"]) == tuple(b["tower_xy"])
                and a["timestamp"] == b["timestamp"] and type(a["timestamp"]) is type(b["timestamp"])
                and a["params"] == b["params"] and set(a) == set(b))
    except Exception:
        return False


def eq_full(a, b):
    return isinstance(a, dict) and eq_labels(a, b) and eq_arrays(a, b)


def maxdev(a, b):
    import numpy as np

    try:
        with np.errstate(all="ignore"):
            return max(float(np.nanmax(np.abs(np.asarray(a[k], float) - np.asarray(b[k], float)))) for k in ("conc", "flx"))
    except Exception:
        return None


def identify(entry, ref, names):
    """(k, i) of the single run this entry is (labels first, arrays to disambiguate duplicate names)"""
    if not isinstance(entry, dict):
        return None
    cands = [(k, i) for k in range(len(ref)) for i in range(len(ref[k])) if eq_labels(entry, ref[k][i])]
    if len(cands) > 1:
        c2 = [c for c in cands if eq_arrays(entry, ref[c[0]][c[1]])]
        cands = c2 or cands
    if not cands:
        cands = [(k, i) for k in range(len(ref)) for i in range(len(ref[k])) if eq_arrays(entry, ref[k][i])]
    return cands[0] if cands else None


def check_series(prefix, series, k, ref, names, out):
    """series should be [single(k, 0), ..., single(k, n-1)]"""
    n = len(ref[k])
    if not isinstance(series, list):
        out.append((prefix + "type", "series of tower %d is %s" % (k, type(series).__name__)))
        return
    if len(series) != n:
        out.append((prefix + "length", "series of tower %d (%s) has %d entries, expected %d" % (k, names[k], len(series), n)))
    for p, e in enumerate(series[:n]):
        if eq_full(e, ref[k][p]):
            continue
        who = identify(e, ref, names)
        if who is not None and eq_full(e, ref[who[0]][who[1]]):
            if who[0] == k:
                out.append((prefix + "order", "position %d of tower %d (%s) holds the single run of time index %d" % (p, k, names[k], who[1])))
            else:
                out.append((prefix + "misassigned", "position %d of tower %d (%s) holds the single run of tower %d (%s), time index %d" % (p, k, names[k], who[0], names[who[0]], who[1])))
        elif isinstance(e, dict) and eq_labels(e, ref[k][p]):
            out.append((prefix + "values", "entry (tower %d, step %d) carries the right labels but its arrays are not bit-equal to run_bldfm_single (max deviation %s)" % (k, p, maxdev(e, ref[k][p]))))
        else:
            out.append((prefix + "values", "entry (tower %d, step %d) equals no single run (labels %r)" % (k, p, {q: e.get(q) for q in ("tower_name", "timestamp")} if isinstance(e, dict) else e)))


def check_dict(prefix, res, ref, names, out, keyorder_sig):
    if not isinstance(res, dict):
        out.append((prefix + "type", "result is %s" % type(res).__name__))
        return
    last = {}
    first_order = []
    for k, nm in enumerate(names):
        if nm not in last:
            first_order.append(nm)
        last[nm] = k
    keys = list(res.keys())
    if set(keys) != set(first_order) or len(keys) != len(first_order):
        out.append((prefix + "keys", "keys %r, towers %r" % (keys, names)))
    elif keys != first_order:
        out.append((keyorder_sig, "keys come in the order %r, the towers are configured in the order %r" % (keys, first_order)))
    for nm in first_order:
        if nm in res:
            check_series(prefix, res[nm], last[nm], ref, names, out)


def structure_of(res, ref, names, is_dict):
    """what the driver returned, as [(name, [(k, i) or None ...])]"""
    def ser(s):
        return [identify(e, ref, names) for e in s] if isinstance(s, list) else None
    if is_dict:
        return [(nm, ser(s)) for nm, s in res.items()] if isinstance(res, dict) else None
    return ser(res)


def read_log(path, run):
    ev = []
    if os.path.exists(path):
        for line in open(path):
            p = line.rstrip("\n").split("\t")
            if len(p) == 6 and p[0] == run:
                ev.append((float(p[5]), p[1], float(p[2]), int(p[3]), int(p[4])))
    ev.sort()
    return ev


def run_group(impl, g, workdir):
    import numpy as np

    cp, itf, rc, orig_single = impl
    rc.NUM_THREADS = g["threads"]
    raw = g["raw"]
    cfg = cp.parse_config_dict(json.loads(json.dumps(raw)))
    if g.get("local_xy"):
        for tw, (x, y) in zip(cfg.towers, g["local_xy"]):
            tw.x, tw.y = float(x), float(y)
    names = [t.name for t in cfg.towers]
    n = cfg.met.n_timesteps
    flux = None
    if g["flux_seed"] is not None:
        flux = np.random.default_rng(g["flux_seed"]).random((raw["domain"]["ny"], raw["domain"]["nx"]))
    STATE.update({"delay": "none", "log": None})
    shutil.rmtree(".bldfm_cache", ignore_errors=True)
    ref = [[orig_single(cfg, tw, met_index=i, surface_flux=flux) for i in range(n)] for tw in cfg.towers]
    # a second pass: the reference itself must be reproducible in this process (else nothing can be concluded)
    stable = all(eq_full(orig_single(cfg, tw, met_index=i, surface_flux=flux), ref[k][i])
                 for k, tw in enumerate(cfg.towers) for i in range(n))
    try:
        import numba

        numba.threading_layer()
        omp_started = True
    except Exception:
        omp_started = False  # "Threading layer is not initialized": no threaded numba code has run in this process
    recs = []
    log = os.path.join(workdir, "completions.log")
    for j, run in enumerate(g["runs"]):
        rid = "g%dr%d" % (g["id"], j)
        shutil.rmtree(".bldfm_cache", ignore_errors=True)
        order = {}
        if run["driver"] == "parallel":
            if run["strategy"] == "time":
                for k, nm in enumerate(names):
                    for i in range(n):
                        order["%s|%d" % (nm, i)] = n - 1 - i
            elif run["strategy"] == "both":
                for k, nm in enumerate(names):
                    for i in range(n):
                        order["%s|%d" % (nm, i)] = len(names) * n - 1 - (k * n + i)
            else:
                for k, nm in enumerate(names):
                    for i in range(n):
                        order["%s|%d" % (nm, i)] = (len(names) - 1 - k) if i == 0 else 0
        STATE.update({"run": rid, "delay": run.get("delay", "none"), "dseed": run.get("dseed", 0), "order": order, "log": log})
        rc.NUM_THREADS = g["threads"]
        fails = []
        t0 = time.time()
        hung = []
        import threading

        def on_timeout():
            hung.append(True)
            kill_children()
        patience = RUN_TIMEOUT if HANGS[0] == 0 else min(RUN_TIMEOUT, 10.0)
        wd = threading.Timer(patience, on_timeout)
        wd.daemon = True
        wd.start()
        JOB["current"] = (g["id"], run)
        wd2 = threading.Timer(patience + 15.0, hard_abort)
        wd2.daemon = True
        wd2.start()
        try:
            if run["driver"] == "parallel" and HANGS[0] >= 3:
                hung.append(True)
                raise RuntimeError("skipped")
            if run["driver"] == "timeseries":
                res = itf.run_bldfm_timeseries(cfg, cfg.towers[run["tower"]], surface_flux=flux)
                check_series("timeseries:", res, run["tower"], ref, names, fails)
                struct = structure_of(res, ref, names, False)
            elif run["driver"] == "multitower":
                res = itf.run_bldfm_multitower(cfg, surface_flux=flux)
                check_dict("multitower:", res, ref, names, fails, "multitower:key-order")
                struct = structure_of(res, ref, names, True)
            else:
                res = itf.run_bldfm_parallel(cfg, max_workers=run["workers"], parallel_over=run["strategy"])
                check_dict("parallel:%s-" % run["strategy"], res, ref, names, fails, "parallel:key-order")
                struct = structure_of(res, ref, names, True)
        except Exception as e:
            import traceback

            tb = traceback.format_exc()
            sig = "%s:raises" % (run["driver"] if run["driver"] != "parallel" else "parallel:" + run["strategy"])
            if g["cache"] and "cache.py" in tb and run["driver"] == "parallel":
                sig = "parallel:%s-cache-race" % run["strategy"]
            elif type(e).__name__ == "BrokenProcessPool":
                # a worker process was killed (numba: "fork() called from a process already using GNU OpenMP")
                sig = "parallel:workers-terminated:" + ("threaded-parent" if g["threads"] > 1 else
                                                        "threaded-numba-cache" if g.get("numba_history") == "after-threaded" else "other")
            elif "NUMBA_NUM_THREADS" in tb:
                sig = "parallel:worker-numba-env:" + ("threaded-parent" if g["threads"] > 1 else "other")
            where = [l.strip() for l in tb.splitlines() if "bldfm/" in l and "File" in l]
            where = [l for l in where if "cache.py" in l] or where
            fails.append((sig, "%s: %s%s" % (type(e).__name__, str(e)[:160], (" [raised at %s]" % where[-1][:160]) if where else "")))
            struct = None
        wd.cancel()
        wd2.cancel()
        JOB["current"] = None
        if hung:
            HANGS[0] += 1
            fails = [("parallel:%s-hang" % run.get("strategy", run["driver"]),
                      "the workers did not finish within %d s and were killed (a normal run takes < 1 s)" % RUN_TIMEOUT)]
            struct = None
        dt = time.time() - t0
        STATE.update({"delay": "none", "log": None})
        ev = read_log(log, rid)
        threads_after = rc.NUM_THREADS
        if threads_after != g["threads"]:
            fails.append(("parent:thread-setting-changed", "bldfm.config.NUM_THREADS of the parent is %r after the run, was %r" % (threads_after, g["threads"])))
        recs.append({"run": run, "rid": rid, "fails": fails, "struct": struct, "events": [(e[1], e[2], e[3], e[4]) for e in ev],
                     "seconds": round(dt, 3), "cache_files": len(os.listdir(".bldfm_cache")) if os.path.isdir(".bldfm_cache") else 0})
    return {"id": g["id"], "names": names, "zms": [t.z_m for t in cfg.towers], "n": n, "stable": stable, "records": recs,
            "omp_started": omp_started}


def probe_put(workdir):
    """does GreensFunctionCache.put write the final file in place (np.savez onto the final path) or atomically
    (elsewhere, then renamed)?  Observed by spying on numpy's savez during one put."""
    import numpy as np
    import bldfm.cache as bc

    d = os.path.join(workdir, "probe_cache")
    shutil.rmtree(d, ignore_errors=True)
    try:
        c = bc.GreensFunctionCache(cache_dir=d)
        seen = []
        orig = (np.savez, np.savez_compressed)

        def spy(fn):
            def w(file, *a, **k):
                seen.append(os.path.abspath(str(file)))
                return fn(file, *a, **k)
            return w
        np.savez, np.savez_compressed = spy(orig[0]), spy(orig[1])
        try:
            z = np.linspace(0.1, 2.0, 4)
            prof = tuple(np.ones(4) * (k + 1) for k in range(5))
            a = np.zeros((3, 3))
            c.put(z, prof, (10.0, 10.0), (4, 4), (1.0, 2.0), 5.0, "single", (a, a, a), a, a)
        finally:
            np.savez, np.savez_compressed = orig
        final = [os.path.abspath(os.path.join(d, f)) for f in os.listdir(d) if f.endswith(".npz") and not f.startswith(".")]
        if len(final) != 1 or not seen:
            put = "unknown"
        else:
            targets = {t if t.endswith(".npz") else t + ".npz" for t in seen}
            put = "inplace" if final[0] in targets else "atomic"
        # get on an incomplete file: raises (strict) or reports a miss (tolerant)?
        get = "unknown"
        if len(final) == 1:
            size = os.path.getsize(final[0])
            with open(final[0], "r+b") as f:
                f.truncate(size // 2)
            try:
                r = c.get(z, prof, (10.0, 10.0), (4, 4), (1.0, 2.0), 5.0, "single")
                get = "tolerant" if r is None else "unknown"
            except Exception:
                get = "strict"
        return put + "/" + get
    except Exception as e:
        return "unknown:%s/unknown" % type(e).__name__
    finally:
        shutil.rmtree(d, ignore_errors=True)


def load_impl():
    sys.path.insert(0, core.SRC)
    import bldfm.config as rc
    import bldfm.config_parser as cp
    import bldfm.interface as itf

    orig = install_wrapper(itf)
    return cp, itf, rc, orig


def job_main(argv):
    spec = json.load(open(argv[2]))
    impl = load_impl()
    workdir = os.getcwd()
    out = JOB["done"]
    JOB["out"] = argv[3]
    JOB["pending"] = [g["id"] for g in spec["groups"]]
    for g in spec["groups"]:
        try:
            out.append(run_group(impl, g, workdir))
        except Exception:
            import traceback

            out.append({"id": g["id"], "error": traceback.format_exc()})
        JOB["pending"].remove(g["id"])
    out.append({"probe_put": probe_put(workdir)})
    json.dump(out, open(argv[3], "w"))
    return 0


# --------------------------------------------------------------------------------------------------
# driver side


def run_jobs(ctx, groups, tag, nproc=12, timeout=1500):
    """Shards the groups over sub-processes.  numba's on-disk cache is part of the scenario, so it is private to
    the run and fresh: groups with a threaded parent (NUM_THREADS > 1) compile into cache directory A, groups with a
    serial parent into B; groups marked numba_history = "after-threaded" run with a serial parent on A AFTER the
    threaded groups have populated it."""
    from concurrent.futures import ThreadPoolExecutor

    dirs = {"A": os.path.join(ctx.build, tag + "_numba_threaded"), "B": os.path.join(ctx.build, tag + "_numba_serial")}
    for d in dirs.values():
        shutil.rmtree(d, ignore_errors=True)
    cls = {"t4": [], "t1": [], "after": []}
    for g in groups:
        cls["t4" if g["threads"] > 1 else "after" if g.get("numba_history") == "after-threaded" else "t1"].append(g)
    for g in cls["after"]:
        # the same configuration (hence the same numba type signature of the kernel) solved once by a threaded process
        prime = json.loads(json.dumps(g))
        prime.update({"id": -1, "threads": 4, "numba_history": None, "runs": [{"driver": "multitower", "delay": "none", "dseed": 0}]})
        cls["t4"].append(prime)

    def weight(g):
        return len(g["runs"]) * (g["nt"] * g["n"] + 3)

    def shard(gs, k):
        sh = [[] for _ in range(max(1, k))]
        for g in sorted(gs, key=lambda g: -weight(g)):
            min(sh, key=lambda x: sum(weight(y) for y in x)).append(g)
        return [x for x in sh if x]

    counter = [0]

    def jobs_of(gs, k, cache):
        out = []
        for sh in shard(gs, k):
            out.append((counter[0], sh, cache))
            counter[0] += 1
        return out

    def one(job):
        k, sh, cache = job
        d = os.path.join(ctx.build, "%s_job%d" % (tag, k))
        shutil.rmtree(d, ignore_errors=True)
        os.makedirs(d)
        json.dump({"groups": sh}, open(os.path.join(d, "in.json"), "w"))
        rc, out, err, dt = core.run([core.PY, os.path.abspath(__file__), "job", os.path.join(d, "in.json"), os.path.join(d, "out.json")],
                                    timeout=timeout, cwd=d, env=core.pyenv({"NUMBA_NUM_THREADS": "4", "NUMBA_CACHE_DIR": dirs[cache]}))
        if rc != 0 or not os.path.exists(os.path.join(d, "out.json")):
            raise core.CheckFailure("C14 implementation job %d failed (rc=%s): %s" % (k, rc, (out + err)[-1500:]))
        return json.load(open(os.path.join(d, "out.json")))

    w4 = sum(weight(g) for g in cls["t4"])
    w1 = sum(weight(g) for g in cls["t1"])
    k4 = max(1, round(nproc * w4 / max(1, w4 + w1))) if cls["t4"] else 0
    k1 = max(1, nproc - k4) if cls["t1"] else 0
    res = []
    phase1 = (jobs_of(cls["t4"], k4, "A") if cls["t4"] else []) + (jobs_of(cls["t1"], k1, "B") if cls["t1"] else [])
    with ThreadPoolExecutor(max_workers=max(1, len(phase1))) as ex:
        for r in ex.map(one, phase1):
            res += r
    phase2 = jobs_of(cls["after"], min(nproc, 6), "A") if cls["after"] else []
    if phase2:
        with ThreadPoolExecutor(max_workers=len(phase2)) as ex:
            for r in ex.map(one, phase2):
                res += r
    return [r for r in res if r.get("id") != -1]


HEADER = ("From Coq Require Import List ZArith Bool.\nFrom BL Require Import Model.Drivers Model.DriversExec Model.KernelCache.\n"
          "Import ListNotations.\n")


def name_tokens(names):
    t = {}
    for nm in names:
        t.setdefault(nm, 11 + len(t))
    return t


def coq_struct(tok, struct):
    def pr(c):
        return "(%d, %d)" % (c[0], c[1]) if c is not None else "(999, 999)"
    return "[%s]" % "; ".join("((%d)%%Z, [%s])" % (tok.get(nm, 0), "; ".join(pr(c) for c in (s or []))) for nm, s in struct)


def sched_of(gr, rec):
    """the observed completion order as schedules of the model; returns (term builder input, info)"""
    names, zms, n = gr["names"], gr["zms"], gr["n"]
    run = rec["run"]
    ev = rec["events"]
    pids = {}
    for e in ev:
        pids.setdefault(e[3], len(pids))

    def tower_index(nm, zm):
        for k in range(len(names)):
            if names[k] == nm and abs(zms[k] - zm) < 1e-3:
                return k
        return None
    if run["strategy"] == "both":
        sched = [(pids[e[3]], tower_index(e[0], e[1]) * n + e[2]) for e in ev if tower_index(e[0], e[1]) is not None]
        ident = [s[1] for s in sched] == sorted(s[1] for s in sched)
        return ("[%s]" % "; ".join("(%d, %d)" % s for s in sched)), ident, len(pids), len(sched) == len(names) * n
    if run["strategy"] == "time":
        per = []
        ident = True
        for k in range(len(names)):
            s = [(pids[e[3]], e[2]) for e in ev if tower_index(e[0], e[1]) == k]
            ident = ident and [x[1] for x in s] == sorted(x[1] for x in s)
            per.append("[%s]" % "; ".join("(%d, %d)" % x for x in s))
        complete = all(len([e for e in ev if tower_index(e[0], e[1]) == k]) == n for k in range(len(names)))
        return ("(nth_sched [%s])" % "; ".join(per)), ident, len(pids), complete
    # towers: a task completes when the last step of the tower's series is done
    done = {}
    for e in ev:
        k = tower_index(e[0], e[1])
        if k is not None:
            done[k] = (len(done) if k not in done else done[k][0], pids[e[3]])
    lastpos = {}
    for pos, e in enumerate(ev):
        k = tower_index(e[0], e[1])
        if k is not None:
            lastpos[k] = (pos, pids[e[3]])
    order = sorted(lastpos, key=lambda k: lastpos[k][0])
    sched = [(lastpos[k][1], k) for k in order]
    ident = order == sorted(order)
    complete = len(order) == len(names) and (n == 0 or len(ev) == len(names) * n)
    if n == 0:
        sched = [(0, k) for k in range(len(names))]
    return ("[%s]" % "; ".join("(%d, %d)" % s for s in sched)), ident, len(pids), complete


def check(ctx):
    core.check_properties_file(ctx, "Properties/C14.v", THEOREMS, core.AX_NONE)
    # tie (B): translate the drivers from the current source (fail closed -> gen:GenDrivers.v), re-prove gen = model
    import py2coq_drivers
    py2coq_drivers.run(ctx)
    groups = gen_groups(ctx.rng, ctx.thorough)
    by_id = {g["id"]: g for g in groups}
    res = run_jobs(ctx, groups, "impl", nproc=14)
    terms, meta = [], {}
    stats = {"runs": 0, "parallel_runs": 0, "non_identity_schedules": 0, "schedules_seen": set(), "max_pids_over_workers": 0,
             "cache_runs_with_files": 0, "entries_bit_equal": 0, "by_driver": {}, "by_workers": {}, "by_shape": {},
             "incomplete_logs": 0, "seconds": 0.0}
    put_modes = sorted({gr["probe_put"] for gr in res if "probe_put" in gr})
    res = [gr for gr in res if "probe_put" not in gr]
    colocated = [g for g in groups if g.get("colocated")]
    if any(m.startswith("inplace/") and m.endswith("/strict") for m in put_modes):
        ctx.fail("correspondence", "C14:shared-cache-unsafe",
                 "GreensFunctionCache.put writes the final cache file in place and get does not guard np.load: neither hypothesis of C14_shared_cache_safe (atomic put, or tolerant get) describes this code, and C14_inplace_put_races is a crashing schedule for it",
                 hint={"group": colocated[-1]} if colocated else None)
    # which flavour of the numba kernel did the parents really run?  (a parent with NUM_THREADS = 1 in which numba's
    # threading layer got started has been handed threaded code: the two flavours share one on-disk cache entry)
    serial_parents = [gr for gr in res if "error" not in gr and by_id[gr["id"]]["threads"] == 1]
    threaded_parents = [gr for gr in res if "error" not in gr and by_id[gr["id"]]["threads"] > 1]
    conflated = [gr["id"] for gr in serial_parents if gr["omp_started"]]
    after_groups = [g for g in groups if g.get("numba_history") == "after-threaded"]
    if conflated:
        ctx.fail("correspondence", "C14:kernel-flavours-share-a-cache-entry",
                 "a parent with NUM_THREADS = 1 ran threaded numba code (groups %s): parallelize() caches the serial and the threaded flavour of the kernel under one name; C14_worker_runs_serial_kernel describes separate names and C14_shared_kernel_name_terminates_workers is the failing history for a shared one" % conflated[:6],
                 hint={"group": after_groups[0]} if after_groups else None)
    naming = "shared_name" if conflated else "own_name"
    for gr in res:
        g = by_id[gr["id"]]
        if "error" in gr:
            if not gr.get("skipped"):
                ctx.fail("correspondence", "C14:group-%d:%s" % (gr["id"], "hang" if "run" in gr else "crash"), gr["error"],
                         hint={"group": dict(g, runs=[gr["run"]]) if "run" in gr else g})
            else:
                stats["skipped_groups"] = stats.get("skipped_groups", 0) + 1
            continue
        par = [rec for rec in gr["records"] if rec["run"]["driver"] == "parallel"]
        if par:
            broken = [rec for rec in par if any("workers-terminated" in sig for sig, _ in rec["fails"])]
            if broken and len(broken) != len(par):
                ctx.fail("correspondence", "C14:group-%d:workers-terminated-sometimes" % gr["id"],
                         "%d of %d parallel runs of the group lost a worker" % (len(broken), len(par)), hint={"group": dict(g, runs=[broken[0]["run"]])})
            kterm = "Bool.eqb (worker_ok %s %s [%d]) %s" % (naming, "[4]" if g.get("numba_history") == "after-threaded" else "[]",
                                                            g["threads"], "false" if broken else "true")
            terms.append(("k%d" % gr["id"], kterm))
            meta["k%d" % gr["id"]] = (g, {"run": par[0]["run"], "struct": "workers %s" % ("terminated" if broken else "alive"), "events": []},
                                      {"group": dict(g, runs=[par[0]["run"]])})
        if not gr["stable"]:
            ctx.fail("correspondence", "C14:group-%d:single-not-reproducible" % gr["id"],
                     "run_bldfm_single called twice in the same process gives different bits; nothing can be compared",
                     hint={"group": dict(g, runs=[])})
        tok = name_tokens(gr["names"])
        towers_term = "[%s]" % "; ".join("(%d, (%d)%%Z)" % (k, tok[nm]) for k, nm in enumerate(gr["names"]))
        n = gr["n"]
        for ri, rec in enumerate(gr["records"]):
            run = rec["run"]
            stats["runs"] += 1
            stats["seconds"] += rec["seconds"]
            dkey = run["driver"] if run["driver"] != "parallel" else "parallel:" + run["strategy"]
            stats["by_driver"][dkey] = stats["by_driver"].get(dkey, 0) + 1
            stats["by_shape"]["%dx%d" % (g["nt"], n)] = stats["by_shape"].get("%dx%d" % (g["nt"], n), 0) + 1
            # the run together with the runs that preceded it in its process: what a parallel run does can depend on
            # what the parent did before forking (a threaded solve starts the OpenMP pool)
            hint = {"group": dict(g, runs=[r["run"] for r in gr["records"][: ri + 1]][-6:])}
            tid = rec["rid"]
            for sig, detail in rec["fails"][:4]:
                ctx.fail("correspondence", "C14:%s:%s" % (tid, sig), "%s (threads %d, cache %s, run %r)" % (detail, g["threads"], g["cache"], run), hint=hint)
            if not rec["fails"]:
                stats["entries_bit_equal"] += (n if run["driver"] == "timeseries" else n * len(set(gr["names"])))
            if g["cache"] and rec["cache_files"]:
                stats["cache_runs_with_files"] += 1
                solves = n if run["driver"] == "timeseries" else (n * g["nt"] if run["driver"] == "multitower" or run.get("strategy") == "towers" else 0)
                if solves > rec["cache_files"]:
                    stats["cache_runs_with_hits"] = stats.get("cache_runs_with_hits", 0) + 1
            if rec["struct"] is None:
                continue
            if run["driver"] == "timeseries":
                k = run["tower"]
                obs = coq_struct(tok, [(gr["names"][k], rec["struct"])])
                term = "xdict_eqb (xmultitower %d [(%d, (%d)%%Z)]) %s" % (n, k, tok[gr["names"][k]], obs)
            elif run["driver"] == "multitower":
                term = "xdict_eqb (xmultitower %d %s) %s" % (n, towers_term, coq_struct(tok, rec["struct"]))
            else:
                stats["parallel_runs"] += 1
                wk = str(run["workers"])
                stats["by_workers"][wk] = stats["by_workers"].get(wk, 0) + 1
                sched, ident, npids, complete = sched_of(gr, rec)
                if not ident:
                    stats["non_identity_schedules"] += 1
                stats["schedules_seen"].add((run["strategy"], sched))
                w_eff = run["workers"] if run["workers"] is not None else g["raw"]["parallel"]["max_workers"]
                stats["max_pids_over_workers"] = max(stats["max_pids_over_workers"], npids - w_eff)
                if not complete:
                    stats["incomplete_logs"] += 1
                    if not rec["fails"]:
                        ctx.fail("correspondence", "C14:%s:completion-log" % tid, "the completion log of the workers is incomplete (%d events)" % len(rec["events"]), hint=hint)
                    continue
                fn = {"towers": "xpar_towers", "time": "xpar_time", "both": "xpar_both"}[run["strategy"]]
                term = "oxdict_eqb (%s %d %s %s) %s" % (fn, n, towers_term, sched, coq_struct(tok, rec["struct"]))
            terms.append((tid, term))
            meta[tid] = (g, rec, hint)
    goals = []
    B = 30
    for b in range(0, len(terms), B):
        items = "; ".join("(%d, %s)" % (j, t) for j, (_, t) in enumerate(terms[b:b + B]))
        goals.append(("b%d" % b, "map fst (filter (fun p => negb (snd p)) [%s])" % items))
    cres = core.coq_eval_sharded(ctx, "c14cases", HEADER, goals, shard=4, timeout=900, jobs=12)
    if "__error__" in cres:
        ctx.fail("correspondence", "C14:coq-eval", cres["__error__"])
    bad = []
    for b in range(0, len(terms), B):
        r = cres.get("b%d" % b)
        if r is None:
            ctx.fail("correspondence", "C14:missing-batch-%d" % b, "no output")
            continue
        idx = [int(x) for x in r.replace("%Z", "").strip("[]() ").split(";") if x.strip()] if r.strip("[] ") else []
        bad += [terms[b + j][0] for j in idx]
    for tid in bad[:25]:
        g, rec, hint = meta[tid]
        ctx.fail("correspondence", "C14:model:" + tid, "the structure returned (%r) differs from the model's on the observed schedule; run %r" % (rec["struct"], rec["run"]), hint=hint)
    ctx.cov.update({
        "evaluations": stats["runs"],
        "distinct_nontrivial": sum(1 for tid, (g, rec, h) in meta.items() if g["nt"] * g["n"] > 1),
        "rule": "for every (towers x steps) shape 1x1..3x4 x parent NUM_THREADS {1,4} x cache {off,on}%s one random configuration (closure, precision, levels, halo, modes, z0/ustar, list/scalar fields, timestamps, repeated met conditions for >= 3 steps, tower names in non-sorted order, different z_m); on it: run_bldfm_timeseries for every tower, run_bldfm_multitower, run_bldfm_parallel for the 3 strategies x max_workers 1..5 (sometimes None); per-task delays none / random / adversarial (the earlier submitted the slower) injected by wrapping bldfm.interface.run_bldfm_single before the fork; plus duplicate-name and user-flux groups. Every entry compared bit-for-bit with the individual run_bldfm_single; the observed completion order is replayed through the Coq model. non-trivial = more than one (tower, step) pair" % (" x 3 repetitions" if ctx.thorough else ""),
        "samples": [{"shape": "%dx%d" % (g["nt"], g["n"]), "threads": g["threads"], "cache": g["cache"], "run": rec["run"],
                     "events": rec["events"][:12], "struct": rec["struct"]} for tid, (g, rec, h) in list(meta.items())[7::max(1, len(meta) // 5)]][:6],
        "groups": len(groups),
        "driver_runs": stats["runs"],
        "parallel_runs": stats["parallel_runs"],
        "model_comparisons": len(terms),
        "model_mismatches": len(bad),
        "entries_bit_equal_to_single": stats["entries_bit_equal"],
        "non_identity_completion_orders": stats["non_identity_schedules"],
        "distinct_schedules_observed": len(stats["schedules_seen"]),
        "incomplete_logs": stats["incomplete_logs"],
        "groups_skipped_after_a_hang": stats.get("skipped_groups", 0),
        "cache_on_runs_that_wrote_cache_files": stats["cache_runs_with_files"],
        "cache_on_runs_with_hits_inferred": stats.get("cache_runs_with_hits", 0),
        "cache_put_and_get_observed": put_modes,
        "colocated_cache_stress_runs": sum(len(g["runs"]) for g in colocated),
        "kernel_naming_observed": naming,
        "serial_parents_that_ran_threaded_code": len(conflated),
        "threaded_parents_that_ran_threaded_code": [sum(1 for gr in threaded_parents if gr["omp_started"]), len(threaded_parents)],
        "numba_cache_scenarios": {"threaded parent, fresh cache": sum(1 for g in groups if g["threads"] > 1),
                                  "serial parent, fresh cache": sum(1 for g in groups if g["threads"] == 1 and g.get("numba_history") != "after-threaded"),
                                  "serial parent, cache populated by a threaded process": sum(1 for g in groups if g.get("numba_history") == "after-threaded")},
        "histogram": {"by_driver": stats["by_driver"], "by_workers": stats["by_workers"], "by_shape": stats["by_shape"]},
        "driver_seconds_total": round(stats["seconds"], 1),
    })


# --------------------------------------------------------------------------------------------------
# oracle


def oracle(ctx, hints):
    groups = []
    for h in hints:
        if h and "group" in h and h["group"].get("runs"):
            g = json.loads(json.dumps(h["group"]))
            # repeat the failing run a few times: schedules are not reproducible exactly
            g["runs"] = [dict(r, dseed=r.get("dseed", 0) + q) for q in range(3) for r in g["runs"]][:60]
            groups.append(g)
    groups = groups[:40]
    rng = random.Random(ctx.seed + 1414)
    for nt, n in ((1, 1), (2, 2), (3, 2), (2, 3), (3, 4)):
        for threads, cache in ((1, False), (4, True)):
            g = make_group(rng, nt, n, threads, cache)
            add_runs(rng, g, [1, 2, 3, 5], full=False)
            groups.append(g)
    for j, g in enumerate(groups):
        g["id"] = j
    groups.append(make_colocated(rng, 5, 4, 10))
    groups.append(make_colocated(rng, 3, 3, 10))
    for nt, n in ((1, 1), (2, 2)):
        g = make_group(rng, nt, n, 1, False)
        g["numba_history"] = "after-threaded"
        add_runs(rng, g, [1, 2], full=False)
        groups.append(g)
    for j, g in enumerate(groups):
        g["id"] = j
    res = run_jobs(ctx, groups, "oracle", nproc=12)
    res = [gr for gr in res if "probe_put" not in gr]
    by_id = {g["id"]: g for g in groups}
    found = {}
    for gr in res:
        g = by_id[gr["id"]]
        if "error" in gr:
            if "run" in gr:
                sig = "parallel:%s-hang" % gr["run"].get("strategy", gr["run"]["driver"])
                found.setdefault(sig, (0, "%s with %d tower(s) x %d step(s), parent NUM_THREADS=%d, use_cache=%s: %s" % (
                    gr["run"]["driver"], g["nt"], g["n"], g["threads"], g["cache"], gr["error"]), {"group": dict(g, runs=[gr["run"]])}))
            continue
        for rec in gr["records"]:
            for sig, detail in rec["fails"]:
                size = g["nt"] * g["n"] * 10 + (rec["run"].get("workers") or 0)
                if "cache-race" in sig:  # a race: prefer the input on which it is most likely to show
                    size = -size
                what = "%s with %d tower(s) x %d step(s), parent NUM_THREADS=%d, use_cache=%s, run %r: %s" % (
                    rec["run"]["driver"], g["nt"], gr["n"], g["threads"], g["cache"],
                    {k: v for k, v in rec["run"].items() if k != "dseed"}, detail)
                if g.get("numba_history") == "after-threaded":
                    what += " [numba's on-disk cache had been populated by a process running with bldfm.config.NUM_THREADS = 4]"
                elif g["threads"] > 1:
                    what += " [fresh numba on-disk cache]"
                if sig not in found or size < found[sig][0]:
                    found[sig] = (size, what, {"group": dict(g, runs=[rec["run"]])})
    return [{"signature": sig, "what": what, "replay": rp} for sig, (size, what, rp) in found.items()]


def replay(body):
    if "group" not in body:
        print(json.dumps(body, indent=1)[:3000])
        return 0
    g = json.loads(json.dumps(body["group"]))
    g["id"] = 0
    reps = 40 if "race" in body.get("signature", "") else 3  # a race shows with some probability per run
    g["runs"] = [dict(r, dseed=r.get("dseed", 0) + q) for r in g["runs"] for q in range(reps)]

    class C:
        build = os.getcwd()
    res = run_jobs(C, [g], "replay", nproc=1)
    res = [gr for gr in res if "probe_put" not in gr]
    bad = 0
    nrun = 0
    for gr in res:
        if "error" in gr:
            print(gr["error"])
            return 1
        for rec in gr["records"]:
            nrun += 1
            if reps <= 3 or rec["fails"]:
                print("run", {k: v for k, v in rec["run"].items()}, "-> structure", rec["struct"])
            for sig, detail in rec["fails"]:
                bad += 1
                print("   ", sig, "::", detail.strip().splitlines()[-1][:300] if detail.strip() else detail)
    print("%d of %d repetitions of the run fail" % (bad, nrun))
    print("FAILS" if bad else "holds")
    return 1 if bad else 0


if __name__ == "__main__":
    if len(sys.argv) >= 4 and sys.argv[1] == "job":
        sys.exit(job_main(sys.argv))
