"""C03 — flux conserved level by level, mean concentration, unit footprint mass, halo == padding."""
import numpy as np

import core
import solvercorr as sc
import solverslices
from props.c04 import TRUSTED

THEOREMS_R = ["C03_resistance_is_integral", "C03_resistance_exact_piecewise_linear", "C03_resistance_converges", "C03_resistance_neutral_example"]
THEOREMS = ["C03_flux_sum", "C03_source_mean", "C03_conc_sum", "C03_footprint_mass", "C03_halo_is_padding", "C03_padded_request_geometry"] + THEOREMS_R
ASSUMPTIONS = [
    "theorems are for double-precision storage and the full periodic domain (halo observed through explicit padding with halo=0)",
    "halo == padding is a theorem for footprint mode (any measurement point) and dispersion mode with the measurement point at the origin (re-centring depends on the domain extent)",
    "'integral of dz/Kz': C03_conc_sum is about the trapezoidal sum the code accumulates (numerical) or h/Kz (analytic); C03_resistance_is_integral bounds its distance to the Riemann integral of 1/Kz by |q00| M2/12 (z_m - z_0) dmax^2 for twice differentiable 1/Kz (M2 a bound of the second derivative), C03_resistance_exact_piecewise_linear shows equality for piecewise-linear 1/Kz, C03_resistance_converges convergence on uniform refinements (over Coquelicot's reals: stdlib real axioms)",
]


def gen(ctx):
    n = 48 if ctx.thorough else 16
    cases = []
    for k in range(n):
        nz = ctx.rng.choice([3, 4, 5])
        cases.append(sc.mk_case(ctx.rng, nz=nz, halo=ctx.rng.choice([0.0, 0.0, "rand"]) if k % 2 else 0.0,
                                levels=ctx.rng.choice([list(range(nz)), [nz - 1, 1], nz - 1]),
                                analytic=(k % 4 == 3), footprint=(k % 2 == 0), precision="double" if k % 5 else "single"))
    return cases


def check(ctx):
    core.check_properties_file(ctx, "Properties/C03.v", THEOREMS, {n: core.AX_REALS for n in THEOREMS_R})
    solverslices.run(ctx)
    cases = gen(ctx)
    recs = sc.correspond(ctx, cases, "c03_")
    sc.summarize(ctx, cases, recs,
                 "random small solves with halo=0 (full periodic domain) and with halos, several levels incl. the full column, numerical and analytic, both modes; distinct by full argument description",
                 nontrivial=lambda c: True)


def resistance(case, l):
    z = case["z"]
    Kz = case["profiles"][4]
    if case["analytic"]:
        return (z[l] - z[0]) / Kz[-1]
    dz = np.diff(z)
    return float(sum(dz[i] * (0.5 / Kz[i] + 0.5 / Kz[i + 1]) for i in range(l)))


def probe(S, case, rng):
    out = []
    single = case["precision"] == "single"
    tol = 2e-6 if single else 1e-10
    ny, nx = case["q0"].shape
    lv = sc.levels_list(case)
    # (1) means on the full periodic domain: pad explicitly, halo = 0
    dx, dy = case["domain"][0] / nx, case["domain"][1] / ny
    halo = max(case["domain"]) if case["halo"] is None else case["halo"]
    px, py = int(halo / dx), int(halo / dy)
    qp = np.pad(case["q0"], ((py, py), (px, px)))
    domp = ((nx + 2 * px) * dx, (ny + 2 * py) * dy)
    mp = case["meas_pt"] if not case["footprint"] else (case["meas_pt"][0] + px * dx, case["meas_pt"][1] + py * dy)
    if not case["footprint"] and (case["meas_pt"][0] ** 2 + case["meas_pt"][1] ** 2 > 0):
        mp = (0.0, 0.0)  # re-centring depends on the domain extent; not part of this clause
    full = dict(case, q0=qp, domain=domp, halo=0.0, meas_pt=mp)
    _, cf, ff = sc.call(S, full)
    cf = np.asarray(cf, float).reshape(len(lv), ny + 2 * py, nx + 2 * px)
    ff = np.asarray(ff, float).reshape(len(lv), ny + 2 * py, nx + 2 * px)
    qmean = 1.0 / qp.size if case["footprint"] else qp.mean()
    for k, l in enumerate(lv):
        want_f = qmean
        want_c = case["bg"] - qmean * resistance(case, l)
        sf = max(abs(want_f), np.abs(ff[k]).max(), 1e-300)
        if abs(ff[k].mean() - want_f) > tol * sf:
            out.append(("flux-mean", "level %d: mean flux %.12g, mean surface flux %.12g" % (l, ff[k].mean(), want_f)))
        scl = max(abs(want_c), np.abs(cf[k]).max(), 1e-300)
        if abs(cf[k].mean() - want_c) > tol * scl:
            out.append(("conc-mean", "level %d: mean conc %.12g, bg - mean flux * resistance = %.12g" % (l, cf[k].mean(), want_c)))
        if case["footprint"] and abs(ff[k].sum() - 1.0) > (1e-5 if single else 1e-10):
            out.append(("footprint-mass", "level %d: weights sum to %.12g" % (l, ff[k].sum())))
    # (2) halo == explicit padding + crop
    if not (not case["footprint"] and (case["meas_pt"][0] ** 2 + case["meas_pt"][1] ** 2 > 0)):
        _, ch, fh = sc.call(S, case)
        ch = np.asarray(ch, float).reshape(len(lv), ny, nx)
        fh = np.asarray(fh, float).reshape(len(lv), ny, nx)
        cc = cf[:, py:py + ny, px:px + nx]
        fc = ff[:, py:py + ny, px:px + nx]
        s = max(np.abs(fc).max(), np.abs(cc).max(), 1e-300)
        d = max(np.abs(ch - cc).max(), np.abs(fh - fc).max()) / s
        if d > (2e-6 if single else 1e-9):
            out.append(("halo-vs-padding", "halo=%r differs from explicit padding by %.3g" % (case["halo"], d)))
    return out


def oracle(ctx, hints):
    S = sc.impl()
    pool = [sc.from_full(h["case"]) for h in hints if h and "case" in h]
    n = 40 if ctx.thorough else 12
    pool += [sc.mk_case(ctx.rng, analytic=(k % 4 == 3), footprint=(k % 2 == 0)) for k in range(n)]
    found = {}
    for case in pool:
        try:
            for sig, detail in probe(S, case, ctx.rng):
                found.setdefault(sig, (detail, case))
        except Exception as e:
            found.setdefault("solver-raises:" + type(e).__name__, (str(e), case))
    return [{"signature": sig, "what": "C03 %s: %s on %r" % (sig, d, sc.describe(c)), "replay": {"case": sc.full(c), "detail": d}}
            for sig, (d, c) in found.items()]


def replay(body):
    import random

    S = sc.impl()
    res = probe(S, sc.from_full(body["case"]), random.Random(1))
    for sig, d in res:
        print("FAILS", sig, d)
    if not res:
        print("holds on this input")
    return 1 if res else 0
