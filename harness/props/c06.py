"""C06 — horizontal translation equivariance of sources, towers and centring."""
import numpy as np

import core
import solvercorr as sc
import solverslices
from props.c04 import TRUSTED

THEOREMS = ["C06_source_shift", "C06_tower_shift", "C06_recentre", "C06_point_reflection", "C06_unit_source_cells"]
ASSUMPTIONS = [
    "theorems are on the periodic domain (px = py = 0: halo observed through explicit padding) and for double-precision storage",
    "the point-reflection clause is the theorem C06_point_reflection (footprint_n0[m] = response to a unit source at n0 evaluated at (2*n0 - m) mod n, periodic domain, double storage), proved from C02 reciprocity with a unit source at m and C06 source roll; the oracle checks it directly on the code as well",
]


def gen(ctx):
    n = 48 if ctx.thorough else 16
    cases = []
    for k in range(n):
        nx, ny = ctx.rng.choice([(4, 4), (6, 4), (4, 6), (5, 4), (6, 6)])
        dx, dy = ctx.rng.choice([(1.0, 1.5), (2.0, 1.0), (1.25, 1.25)])
        fp = k % 2 == 0
        meas = (dx * ctx.rng.randrange(nx), dy * ctx.rng.randrange(ny))
        cases.append(sc.mk_case(ctx.rng, nx=nx, ny=ny, domain=(nx * dx, ny * dy), halo=ctx.rng.choice([0.0, 0.0, dx]), footprint=fp, meas=meas,
                                modes=ctx.rng.choice([(4, 4), (2, 4), (64, 64)]), precision="double"))
    return cases


def check(ctx):
    core.check_properties_file(ctx, "Properties/C06.v", THEOREMS, core.AX_NONE)
    solverslices.run(ctx)
    cases = gen(ctx)
    recs = sc.correspond(ctx, cases, "c06_")
    sc.summarize(ctx, cases, recs,
                 "footprint solves with on-grid towers anywhere on the grid and dispersion solves with non-zero on-grid measurement points (re-centring), dx != dy, even and odd sizes, truncated and full mode sets; non-trivial = measurement point other than the origin",
                 nontrivial=lambda c: c["meas_pt"] != (0.0, 0.0))


def probe(S, case, rng):
    out = []
    ny, nx = case["q0"].shape
    dx, dy = case["domain"][0] / nx, case["domain"][1] / ny
    lv = sc.levels_list(case)
    base = dict(case, halo=0.0, precision="double")
    tol = 1e-9

    def fields(c):
        _, cc, ff = sc.call(S, c)
        return np.asarray(cc, float).reshape(len(lv), ny, nx), np.asarray(ff, float).reshape(len(lv), ny, nx)

    def rel(a, b):
        return float(np.abs(a - b).max() / max(np.abs(b).max(), 1e-300))

    rx, ry = rng.randrange(-nx, 2 * nx), rng.randrange(-ny, 2 * ny)
    # (1) source roll, dispersion, meas (0,0)
    d0 = dict(base, footprint=False, meas_pt=(0.0, 0.0))
    c0, f0 = fields(d0)
    c1, f1 = fields(dict(d0, q0=np.roll(case["q0"], (ry, rx), axis=(0, 1))))
    if max(rel(c1 - case["bg"], np.roll(c0, (ry, rx), axis=(1, 2)) - case["bg"]), rel(f1, np.roll(f0, (ry, rx), axis=(1, 2)))) > tol:
        out.append(("source-shift", "rolling the source by (%d,%d) does not roll the fields" % (rx, ry)))
    # (2) tower shift, footprint
    im, jm = rng.randrange(nx), rng.randrange(ny)
    fpa = dict(base, footprint=True, meas_pt=(im * dx, jm * dy))
    ca, fa = fields(fpa)
    cb, fb = fields(dict(fpa, meas_pt=((im + rx) * dx, (jm + ry) * dy)))
    if max(rel(cb - case["bg"], np.roll(ca, (ry, rx), axis=(1, 2)) - case["bg"]), rel(fb, np.roll(fa, (ry, rx), axis=(1, 2)))) > tol:
        out.append(("tower-shift", "moving the tower by (%d,%d) cells does not roll the footprint" % (rx, ry)))
    # (3) point reflection: footprint_n0[m] = response to unit source at n0, at 2*n0 - m
    unit = np.zeros((ny, nx))
    unit[jm, im] = 1.0
    cu, fu = fields(dict(d0, q0=unit, bg=0.0))
    jj, ii = np.meshgrid(np.arange(ny), np.arange(nx), indexing="ij")
    refl_f = fu[:, (2 * jm - jj) % ny, (2 * im - ii) % nx]
    refl_c = cu[:, (2 * jm - jj) % ny, (2 * im - ii) % nx]
    cfp, ffp = fields(dict(fpa, bg=0.0))
    if max(rel(ffp, refl_f), rel(cfp, refl_c)) > tol:
        out.append(("reflection", "footprint at tower (%d,%d) is not the point reflection of the unit-source response" % (im, jm)))
    # (4) re-centring, even sizes, dispersion
    if nx % 2 == 0 and ny % 2 == 0 and (im, jm) != (0, 0):
        cr, fr = fields(dict(d0, meas_pt=(im * dx, jm * dy)))
        want_f = np.roll(f0, (ny // 2 - jm, nx // 2 - im), axis=(1, 2))
        want_c = np.roll(c0, (ny // 2 - jm, nx // 2 - im), axis=(1, 2))
        if max(rel(fr, want_f), rel(cr - case["bg"], want_c - case["bg"])) > tol:
            out.append(("recentre", "meas_pt (%d,%d): output is not the field rolled to the centre" % (im, jm)))
        elif abs(fr[0, ny // 2, nx // 2] - f0[0, jm, im]) > tol * max(np.abs(f0).max(), 1e-300):
            out.append(("recentre", "centre value is not the field value at the measurement point"))
    return out


def oracle(ctx, hints):
    S = sc.impl()
    pool = [sc.from_full(h["case"]) for h in hints if h and "case" in h]
    cases = gen(ctx)
    pool += cases[:: (1 if ctx.thorough else 2)]
    found = {}
    for case in pool:
        try:
            for sig, detail in probe(S, case, ctx.rng):
                found.setdefault(sig, (detail, case))
        except Exception as e:
            found.setdefault("solver-raises:" + type(e).__name__, (str(e), case))
    return [{"signature": sig, "what": "C06 %s: %s on %r" % (sig, d, sc.describe(c)), "replay": {"case": sc.full(c), "detail": d}}
            for sig, (d, c) in found.items()]


def replay(body):
    import random

    S = sc.impl()
    res = []
    for s in range(4):
        res += probe(S, sc.from_full(body["case"]), random.Random(s))
    for sig, d in res:
        print("FAILS", sig, d)
    if not res:
        print("holds on this input")
    return 1 if res else 0
