"""C19 — Kormann-Meixner reference footprint = its published closed form for all inputs.

check(ctx):
  1. Properties/C19.v (theorems about Model/KM.v, Gamma a Section variable), allow-list core.AX_REALS;
  2. slice translator + Bridge/KMHelpBridge.v, KMBridge.v, KMLoopBridge.v: every formula slice of the helpers, of the
     estimateFootprint chain and of estimateZ0 re-extracted from the CURRENT source equals the model kernel for all real
     arguments; whole-function translator harness/py2coq_km.py + Bridge/KMFunBridge.v, KMFpFunBridge.v: the control
     structure of estimateZ0 (smoothing loop) and estimateFootprint (grid, early exit, rotation, masked store, return)
     interpreted = the model's functions for all inputs (kmslices.run);
  3. interval-certified correspondence: for generated physically consistent parameter sets, grids, receptor
     positions and wind directions the goals
         Rabs (model(exact rationals of the float inputs, scipy's Gamma values as data) - python value) <= tol
     are closed by `interval` (helpers, the two Gamma arguments, raw z0, sampled cells incl. downwind and
     on-axis cells; cardinal wind directions through the exact lemmas rot_0/90/180/270);
  4. exact correspondences: grid geometry (vm_compute over Q), smoothing-window masks of estimateZ0
     (vm_compute over Q; python's nanmedian re-composed over the model's masks must reproduce estimateZ0
     bit for bit), dtype behaviour (Python int/float, numpy int32/int64/float32/float64 give the float64
     values; the model has no dtype, its inputs are real numbers).
oracle(ctx, hints): the property's own statement on the real code with an independent scipy.special closed form.

Tolerances (documented): helpers 1e-13 relative + 2e-15 absolute (a handful of double roundings, cancellation
in psi_m at O(1)); Gamma arguments 1e-13 relative; cells 1e-9 relative + 1e-300 absolute (about 40 double
operations, exp/pow arguments up to a few hundred => < 1e-12 in practice; realistic mutations move cells by
> 1e-4 relative); float32-typed inputs: float32 resolution (1e-4 of the peak)."""
import math
import os
import re
import sys
import warnings
from fractions import Fraction

import numpy as np

import core
import kmhints
import kmslices

THEOREMS_MAIN = [  # Properties/C19.v: standard library only (coqchk-able in about a minute)
    "C19_closed_form", "C19_nonneg", "C19_downwind_zero", "C19_upwind_positive", "C19_cross_symmetric",
    "C19_rotation", "C19_rotation_cardinal", "C19_z0_inverts_loglaw", "C19_window_circular",
    "C19_window_wide_refuted", "C19_z0_rotation_invariant", "C19_bin_is_floor", "C19_exec_agrees",
]
THEOREMS_NUM = ["C19_int_refuted", "C19_mass_partial"]  # Properties/C19Num.v: interval tactic / Coquelicot
THEOREMS = THEOREMS_MAIN + THEOREMS_NUM
TRUSTED = [
    "Model/KM.v is hand-written over Coq's reals; tied to ffm_kormann_meixner.py by Bridge/KMHelpBridge.v, KMBridge.v, KMLoopBridge.v on re-extracted slices (all arguments), by Bridge/KMFunBridge.v, KMFpFunBridge.v on the whole translated bodies of estimateZ0 / estimateFootprint and by the interval-certified / exact correspondences of this run",
    "the Gamma function is a Section variable of the model (no installed Coq library defines it); theorems assume only forall x>0, Gamma x > 0; in the correspondence the two values scipy.special.gamma returns (at mu and 1/r) are passed in as data and the arguments it was called with are certified against the model's mu and 1/r",
    "the `interval` tactic (reification, floating-point interval kernels on primitive integers) at i_prec 80-120",
    "Python `**`, np.exp, np.log, np.arctan, np.arctan2, np.sqrt are modelled by Rpower (positive bases), exp, ln, atan, the model's atan2, sqrt",
    "harness/kmhints.py (60-digit decimal evaluation) only proposes enclosure centres; every enclosure is proved in Coq",
    "numpy.nanmedian is not modelled (Section variable); the correspondence re-composes it over the model's window masks",
]
ASSUMPTIONS = [
    "physically consistent inputs: zm, z0, ws, ustar, sigma_v > 0, L <> 0 (L = 0 selects the stable branch as the mask `>=` does and divides by zero); theorems that need U > 0 say so (U < 0 returns the all-zero grid, modelled)",
    "exact real arithmetic: IEEE rounding is not covered by the theorems, it is bounded per case by the certified tolerances",
    "wind directions of estimateZ0 lie in [0, 360) and the common rotation is by whole degrees, wrapped; half window <= 89 degrees (default 22): beyond that the code's window is not circular (C19_window_wide_refuted) - observation, half_wd_win is not in the property's quantifier",
    "C19_mass_partial: Riemann-sum convergence, the Gaussian integral and Q(a)->0 are not proved (no Gamma / incomplete-gamma library); the mass limit is carried by the oracle",
]

PROJ = "p_zm p_z0 p_ws p_ustar p_L p_sv"


# ------------------------------------------------------------------------------------------------
# implementation access


class _GammaProxy:
    """stands in for `spsp` inside the module: records every gamma call"""

    def __init__(self, real):
        self._real = real
        self.calls = []

    def __getattr__(self, n):
        f = getattr(self._real, n)
        if n == "gamma":
            def g(x):
                v = f(x)
                self.calls.append((float(x), float(v)))
                return v
            return g
        return f


def impl():
    if core.SRC not in sys.path:
        sys.path.insert(0, core.SRC)
    import importlib

    import bldfm.ffm_kormann_meixner as km

    km = importlib.reload(km)
    return km


def call_fp(km, p, grid, wd, record=True):
    from scipy import special as sp

    proxy = _GammaProxy(sp)
    old = km.spsp
    km.spsp = proxy
    try:
        with warnings.catch_warnings(record=True) as w:
            warnings.simplefilter("always")
            gx, gy, gf = km.estimateFootprint(p["zm"], p["z0"], p["ws"], p["ustar"], p["L"], p["sv"],
                                              grid["domain"], grid["res"], grid["mxy"], wd=wd)
    finally:
        km.spsp = old
    # a caller that works on the arrays it was handed (receptor-relative coordinates: gx -= mx, gy -= my; masking the
    # footprint) and asks again for the same raster must get the same answer: what a call returns belongs to the caller
    keep = tuple(np.array(a, copy=True) for a in (gx, gy, gf))
    try:
        for a, op in ((gx, lambda a: a.__isub__(17.25)), (gy, lambda a: a.__imul__(0.5)), (gf, lambda a: a.fill(-1.0))):
            if isinstance(a, np.ndarray) and a.flags.writeable:
                op(a)
        with warnings.catch_warnings():
            warnings.simplefilter("ignore")
            again = km.estimateFootprint(p["zm"], p["z0"], p["ws"], p["ustar"], p["L"], p["sv"],
                                         grid["domain"], grid["res"], grid["mxy"], wd=wd)
        REPEAT["n"] += 1
        if not all(np.array_equal(np.asarray(a), b, equal_nan=True) for a, b in zip(again, keep)):
            REPEAT["bad"].append({"kind": "cells", "p": p, "grid": grid, "wd": wd, "repeat_after_edit": True})
    except Exception as e:  # noqa: BLE001
        REPEAT["bad"].append({"kind": "cells", "p": p, "grid": grid, "wd": wd, "repeat_after_edit": True, "error": repr(e)})
    gx, gy, gf = keep
    return gx, gy, gf, proxy.calls, [str(x.message) for x in w]


REPEAT = {"n": 0, "bad": []}


# ------------------------------------------------------------------------------------------------
# literals


def rlit(x):
    """exact value of a float / int / Fraction as a Coq real literal"""
    fr = Fraction(x) if not isinstance(x, Fraction) else x
    if fr.denominator == 1:
        return "(%d)" % fr.numerator if fr.numerator >= 0 else "(- %d)" % -fr.numerator
    if fr.numerator >= 0:
        return "(%d / %d)" % (fr.numerator, fr.denominator)
    return "(- %d / %d)" % (-fr.numerator, fr.denominator)


def qlit(x):
    return core.qlit(Fraction(x))


# ------------------------------------------------------------------------------------------------
# generators


def loglaw_ws(zm, z0, ustar, L):
    if L < 0:
        z = (1 - 16 * zm / L) ** 0.25
        psi = -2 * math.log((1 + z) / 2) - math.log((1 + z * z) / 2) + 2 * math.atan(z) - math.pi / 2
    else:
        psi = 5 * zm / L
    return ustar / 0.4 * (math.log(zm / z0) + psi)


ANCHORS = [
    # (zm, z0, ws, ustar, L, sigma_v): the test suite's set, near-neutral both signs, strongly (un)stable, integers
    dict(zm=10.0, z0=0.1, ws=4.0, ustar=0.4, L=-100.0, sv=0.3),
    dict(zm=10.0, z0=0.1, ws=4.0, ustar=0.4, L=1e6, sv=0.3),
    dict(zm=10.0, z0=0.1, ws=4.0, ustar=0.4, L=-1e6, sv=0.3),
    dict(zm=10, z0=1, ws=4, ustar=1, L=-50, sv=1),
    dict(zm=10, z0=1, ws=4, ustar=1, L=100, sv=1),
    dict(zm=2.5, z0=0.03, ws=2.2, ustar=0.25, L=-8.0, sv=0.6),
    dict(zm=30.0, z0=0.5, ws=6.5, ustar=0.55, L=60.0, sv=0.9),
]
U_NEGATIVE = dict(zm=10.0, z0=100.0, ws=4.0, ustar=0.4, L=-100.0, sv=0.3)


def gen_params(rng, n):
    out = [dict(a) for a in ANCHORS]
    while len(out) < n:
        zm = rng.choice([2.0, 3.5, 10.0, 20.0, 42.0])
        z0 = rng.choice([0.005, 0.02, 0.1, 0.3, 1.0])
        if z0 * 8 > zm:
            continue
        ustar = rng.choice([0.12, 0.25, 0.4, 0.6, 0.9])
        L = rng.choice([-5.0, -20.0, -75.0, -300.0, -5000.0, 5000.0, 400.0, 120.0, 35.0, 15.0])
        ws = round(loglaw_ws(zm, z0, ustar, L) * rng.choice([0.85, 0.95, 1.0, 1.1, 1.25]), 3)
        if ws <= 0.2:
            continue
        sv = rng.choice([0.2, 0.45, 0.8, 1.3])
        out.append(dict(zm=zm, z0=z0, ws=ws, ustar=ustar, L=L, sv=sv))
    return out[:n]


def gen_grids(rng, p, k):
    """k-th parameter set gets three grids: wind-aligned (wd None), a cardinal direction, an arbitrary angle"""
    res = rng.choice([5.0, 2.5, 10.0, 4.0])
    half = rng.choice([20, 30, 40]) * res
    g_al = dict(domain=[-half / 2, 3 * half / 2, -half, half], res=res, mxy=[rng.choice([0.0, res / 2, 3.1]), rng.choice([0.0, -res / 2, 4.7])])
    g_c = dict(domain=[-half, half, -half, half], res=res, mxy=[rng.choice([0.0, res / 2, 12.5]), rng.choice([0.0, res / 2, -7.5])])
    g_a = dict(domain=[-half, half + rng.choice([0.0, 3.0]), -half, half], res=rng.choice([res, 0.1 * round(res * 10)]), mxy=[rng.choice([0.0, 1.3, -6.0]), rng.choice([0.0, 2.9])])
    card = [0.0, 90.0, 180.0, 270.0][k % 4]
    if k % 5 == 4:
        card = int(card)
    ang = rng.choice([33.0, 127.5, 201.0, 299.25, 345.0, 45.0, 360.0, -90.0, 450.0, 271.0, 89.5])
    return [(g_al, None), (g_c, card), (g_a, ang)]


def aligned_xy(gx, gy, mxy, wd):
    x0, y0 = gx - mxy[0], gy - mxy[1]
    if wd is None:
        return x0, y0
    w = np.deg2rad(float(wd))
    s, c = np.sin(w), np.cos(w)
    if float(wd) % 90 == 0:
        s, c = float(round(s)), float(round(c))
    return x0 * s + y0 * c, -x0 * c + y0 * s


def pick_cells(rng, gx, gy, gf, mxy, wd, ncell):
    X, Y = aligned_xy(gx, gy, mxy, wd)
    rho = np.sqrt(X * X + Y * Y)
    cardinal = wd is None or float(wd) in (0.0, 90.0, 180.0, 270.0)
    safe = np.ones_like(X, dtype=bool) if cardinal else (np.abs(X) > 1e-6 * rho + 1e-9)
    cells = []
    pos = np.argwhere((gf > 0) & safe)
    if len(pos):
        vals = gf[pos[:, 0], pos[:, 1]]
        order = np.argsort(vals)
        for q in (1.0, 0.9, 0.6, 0.3, 0.05):
            cells.append(tuple(pos[order[min(len(order) - 1, int(q * (len(order) - 1)))]]))
        for _ in range(max(0, ncell - 8)):
            cells.append(tuple(pos[rng.randrange(len(pos))]))
    dw = np.argwhere((X < 0) & safe)
    if len(dw):
        cells.append(tuple(dw[rng.randrange(len(dw))]))
    if cardinal:
        ax = np.argwhere(X == 0)
        if len(ax):
            cells.append(tuple(ax[rng.randrange(len(ax))]))
            cells.append(tuple(ax[0]))
    zero_up = np.argwhere((gf == 0) & (X > 0) & safe)
    if len(zero_up):
        cells.append(tuple(zero_up[rng.randrange(len(zero_up))]))
    seen, out = set(), []
    for c in cells:
        c = (int(c[0]), int(c[1]))
        if c not in seen:
            seen.add(c)
            out.append(c)
    return out


# ------------------------------------------------------------------------------------------------
# Coq text of one parameter set


HEADER = """From Coq Require Import Reals Lra.
From Interval Require Import Tactic.
From BL Require Import Model.KM Proofs.KMProofs.
Open Scope R_scope.
"""


# relative half-widths of the proved enclosures grow along the chain (each level must absorb the propagated
# width of its inputs); all far below the 1e-9 cell tolerance
WIDTH = {"b_phiM": "1e-30", "b_phiC": "1e-30", "b_psiM": "1e-30", "b_n": "1e-30", "b_m": "1e-28", "b_kappa": "1e-28",
         "b_z0raw": "1e-28", "b_U": "1e-26", "b_r": "1e-26", "b_mu": "1e-24", "b_invr": "1e-24", "b_mr": "1e-24",
         "b_Xi": "1e-22", "b_num": "1e-20", "b_A": "1e-20"}


def _bound(name, term, c, tactic):
    from decimal import Decimal

    lo, hi = kmhints.enclosure(c, rel=Decimal(WIDTH[name]), ab=Decimal("1e-40"))
    return "Lemma %s : %s <= %s <= %s.\nProof. %s Qed.\n" % (name, rlit(lo), term, rlit(hi), tactic)


def coq_case(cid, p, helpers_py, gamma_calls, z0raw_py, cells):
    """cells: list of (label, res, mxy, wd, gx, gy, value).  Returns (text, labels in order)."""
    zm, z0, ws, us, L, sv = (rlit(p[k]) for k in ("zm", "z0", "ws", "ustar", "L", "sv"))
    P = "(mkPar %s %s %s %s %s %s)" % (zm, z0, ws, us, L, sv)
    unstable = p["L"] < 0
    br = "unstable" if unstable else "stable"
    ginvr = gamma_calls[1][1] if len(gamma_calls) >= 2 else 1.0
    gmu = gamma_calls[0][1] if len(gamma_calls) >= 2 else 1.0
    h = kmhints.chain(p["zm"], p["z0"], p["ws"], p["ustar"], p["L"], p["sv"], ginvr)
    IV = "interval with (i_prec 120)."
    hl = "rewrite %%s_%s by lra; unfold zeta, Rpower; %s" % (br, IV)
    t = [HEADER, "Module %s." % cid]
    labels = []

    def mark(lbl):
        labels.append(lbl)
        t.append('Goal True. idtac "CASE %s OK". Abort.' % lbl)

    # tight enclosures of the chain (hints proved by interval)
    t.append(_bound("b_phiM", "phiM %s %s" % (zm, L), h["phiM"], hl % "phiM"))
    t.append(_bound("b_phiC", "phiC %s %s" % (zm, L), h["phiC"], hl % "phiC"))
    t.append(_bound("b_psiM", "psiM %s %s" % (zm, L), h["psiM"], hl % "psiM"))
    t.append(_bound("b_n", "n_of %s" % P, h["n"], "unfold n_of; cbn [%s]; rewrite nParam_%s by lra; %s" % (PROJ, br, IV)))
    use = lambda *names: " ".join("pose proof %s;" % n for n in names)
    step = lambda defs, names: "unfold %s; cbn [%s]; %s unfold Rpower; %s" % (defs, PROJ, use(*names), IV)
    t.append(_bound("b_m", "m_of %s" % P, h["m"], step("m_of, mParam, vk", ["b_phiM"])))
    t.append(_bound("b_kappa", "kappa_of %s" % P, h["kappa"], step("kappa_of, kappa, vk", ["b_phiC", "b_n"])))
    t.append(_bound("b_U", "U_of %s" % P, h["U"], step("U_of, Ucoef, vk", ["b_psiM", "b_m"])))
    t.append(_bound("b_r", "r_of %s" % P, h["r"], step("r_of, rshape", ["b_m", "b_n"])))
    t.append(_bound("b_mu", "mu_of %s" % P, h["mu"], step("mu_of, muc", ["b_m", "b_r"])))
    t.append(_bound("b_invr", "1 / r_of %s" % P, h["invr"], use("b_r") + " " + IV))
    t.append(_bound("b_mr", "mr_of %s" % P, h["mr"], step("mr_of, mrc", ["b_m", "b_r"])))
    t.append(_bound("b_z0raw", "z0raw %s %s %s %s" % (zm, L, ws, us), h["z0raw"], "unfold z0raw, vk; pose proof b_psiM; " + IV))
    positive = h["U"] > 0
    if positive:
        t.append(_bound("b_Xi", "Xi_of %s" % P, h["Xi"], step("Xi_of, Xic", ["b_U", "b_r", "b_kappa"])))
        t.append(_bound("b_num", "num_of %s" % P, h["num"], step("num_of, numc", ["b_Xi", "b_mu"])))
        t.append(_bound("b_A", "A_of_g %s %s" % (rlit(ginvr), P), h["A"], step("A_of_g, Acoef_g", ["b_U", "b_r", "b_kappa", "b_mr"])))
        t.append("Lemma HU : ~ U_of %s < 0.\nProof. pose proof b_U. lra. Qed." % P)
    else:
        t.append("Lemma HU : U_of %s < 0.\nProof. pose proof b_U. lra. Qed." % P)
    mark(cid + ":chain")

    # python values of the helpers, of the arguments of gamma, of the raw z0
    def corr(lbl, term, pyv, tol, hyps):
        t.append("Goal Rabs (%s - %s) <= %s.\nProof. %s interval with (i_prec 80). Qed." % (term, rlit(pyv), rlit(tol), use(*hyps)))
        mark(lbl)

    tolh = lambda v: Fraction(abs(float(v))) / 10 ** 13 + Fraction(2, 10 ** 15)
    corr(cid + ":phiM", "phiM %s %s" % (zm, L), helpers_py["phiM"], tolh(helpers_py["phiM"]), ["b_phiM"])
    corr(cid + ":phiC", "phiC %s %s" % (zm, L), helpers_py["phiC"], tolh(helpers_py["phiC"]), ["b_phiC"])
    corr(cid + ":psiM", "psiM %s %s" % (zm, L), helpers_py["psiM"], tolh(helpers_py["psiM"]), ["b_psiM"])
    corr(cid + ":nParam", "n_of %s" % P, helpers_py["n"], tolh(helpers_py["n"]), ["b_n"])
    corr(cid + ":mParam", "m_of %s" % P, helpers_py["m"], tolh(helpers_py["m"]), ["b_m"])
    if z0raw_py is not None:
        if math.isnan(z0raw_py):
            t.append("Goal z0clean (z0raw %s %s %s %s) = None.\nProof. apply z0clean_drop. pose proof b_z0raw. lra. Qed." % (zm, L, ws, us))
        else:
            t.append("Goal z0clean (z0raw %s %s %s %s) = Some (z0raw %s %s %s %s).\nProof. apply z0clean_keep. pose proof b_z0raw. lra. Qed."
                     % (zm, L, ws, us, zm, L, ws, us))
            corr(cid + ":z0raw", "z0raw %s %s %s %s" % (zm, L, ws, us), z0raw_py, Fraction(abs(z0raw_py)) / 10 ** 12 + Fraction(1, 10 ** 300), ["b_z0raw"])
        mark(cid + ":z0clean")
    if positive and len(gamma_calls) >= 2:
        corr(cid + ":gamma-arg-mu", "mu_of %s" % P, gamma_calls[0][0], Fraction(abs(gamma_calls[0][0])) / 10 ** 13, ["b_mu"])
        corr(cid + ":gamma-arg-invr", "1 / r_of %s" % P, gamma_calls[1][0], Fraction(abs(gamma_calls[1][0])) / 10 ** 13, ["b_r"])

    # cells
    G1, G2 = rlit(gmu), rlit(ginvr)
    bounds = use("b_num", "b_A", "b_mr", "b_mu", "b_Xi")
    for (lbl, res, mxy, wd, gx, gy, v) in cells:
        tol = Fraction(abs(v)) / 10 ** 9 + Fraction(1, 10 ** 300)
        r_, mx, my, gxl, gyl = rlit(res), rlit(mxy[0]), rlit(mxy[1]), rlit(gx), rlit(gy)
        if wd is None:
            xt, yt, pre = "(al_x %s %s)" % (gxl, mx), "(al_y %s %s)" % (gyl, my), "unfold al_x, al_y."
        else:
            xt = "(rot_x %s %s %s %s %s)" % (gxl, gyl, mx, my, rlit(wd))
            yt = "(rot_y %s %s %s %s %s)" % (gxl, gyl, mx, my, rlit(wd))
            if float(wd) in (0.0, 90.0, 180.0, 270.0):
                pre = "destruct (rot_%d %s %s %s %s) as [-> ->]." % (int(float(wd)), gxl, gyl, mx, my)
            else:
                pre = "rewrite rot_x_matrix, rot_y_matrix; unfold rad."
        goal = "Goal Rabs (cell_g %s %s %s %s %s %s - %s) <= %s." % (G1, G2, P, r_, xt, yt, rlit(v), rlit(tol))
        if not positive:
            body = "rewrite cell_g_Uneg by exact HU. rewrite Rminus_0_l, Rabs_Ropp; interval."
        else:
            body = (pre + "\n  match goal with |- Rabs (cell_g ?g1 ?g2 ?p ?r ?x ?y - _) <= _ =>\n"
                    "    first [ assert (Hx : 0 < x) by (first [lra | interval with (i_prec 80)]);\n"
                    "            rewrite (cell_g_upwind_form g1 g2 p r x y HU Hx); " + bounds + " unfold Rpower; interval with (i_prec 80)\n"
                    "          | assert (Hx : x <= 0) by (first [lra | interval with (i_prec 80)]);\n"
                    "            rewrite (cell_g_downwind g1 g2 p r x y Hx); rewrite Rminus_0_l, Rabs_Ropp; interval ] end.")
        t.append(goal + "\nProof.\n  " + body + "\nQed.")
        mark(lbl)
    t.append("End %s." % cid)
    return "\n".join(t) + "\n", labels


def run_coq_cases(ctx, files):
    """files: {name: (text, labels)}.  Compiles all in parallel; returns set of labels that passed, and error texts."""
    from concurrent.futures import ThreadPoolExecutor

    ok, errs = set(), {}

    def one(item):
        name, (text, labels) = item
        path = ctx.write(name, text)
        rc, out, err, dt = ctx.coqc(path, timeout=900)
        got = set(re.findall(r"^CASE (\S+) OK", out + "\n" + err, re.M))
        return name, rc, got, (out + err)[-1200:], labels

    with ThreadPoolExecutor(max_workers=12) as ex:
        for name, rc, got, tail, labels in ex.map(one, list(files.items())):
            ok |= got
            if rc != 0:
                firstbad = next((l for l in labels if l not in got), None)
                errs[name] = (firstbad, tail)
    return ok, errs


# ------------------------------------------------------------------------------------------------
# exact dtype behaviour


DTYPES = [("int", int), ("float", float), ("int32", np.int32), ("int64", np.int64), ("float32", np.float32), ("float64", np.float64)]
INT_SETS = [
    dict(zm=10, z0=1, ws=4, ustar=1, L=-50, sv=1),
    dict(zm=10, z0=1, ws=4, ustar=1, L=100, sv=1),
    dict(zm=3, z0=1, ws=2, ustar=1, L=-1000000, sv=2),
    dict(zm=25, z0=2, ws=5, ustar=1, L=12, sv=1),
]


def dtype_probe(km, sets=INT_SETS, first_only=False):
    """returns list of (what, detail, replay) for every dtype whose results differ from the float64 call"""
    bad = []
    n_eval = 0

    def same(a, b, f32):
        a, b = np.asarray(a, dtype=float), np.asarray(b, dtype=float)
        if a.shape != b.shape:
            return False
        if f32:
            na, nb = np.isnan(a), np.isnan(b)
            if not np.array_equal(na, nb):
                return False
            a, b = a[~na], b[~nb]
            if a.size == 0:
                return True
            return bool(np.all(np.abs(a - b) <= 1e-4 * max(np.abs(b).max(), 1e-300) + 1e-6 * np.abs(b)))
        return bool(np.array_equal(a, b, equal_nan=True))

    for s in sets:
        ref_args = {k: np.float64(v) for k, v in s.items()}
        arr = lambda T, v: np.asarray([T(v)])
        helpers = [
            ("_phiM", lambda T: km._phiM(arr(T, s["zm"]), arr(T, s["L"]))),
            ("_phiC", lambda T: km._phiC(arr(T, s["zm"]), arr(T, s["L"]))),
            ("_psiM", lambda T: km._psiM(arr(T, s["zm"]), arr(T, s["L"]))),
            ("_nParam", lambda T: km._nParam(arr(T, s["zm"]), arr(T, s["L"]))),
            ("_mParam", lambda T: km._mParam(arr(T, s["zm"]), arr(T, s["ws"]), arr(T, s["ustar"]), arr(T, s["L"]))),
            ("estimateZ0", lambda T: km.estimateZ0(np.asarray([T(s["zm"])] * 2), np.asarray([T(s["ws"])] * 2), np.asarray([T(270), T(10)]),
                                                    np.asarray([T(s["ustar"])] * 2), np.asarray([T(s["L"])] * 2), half_wd_win=0)),
            ("estimateZ0:smoothed", lambda T: km.estimateZ0(np.asarray([T(s["zm"])] * 2), np.asarray([T(s["ws"])] * 2), np.asarray([T(270), T(10)]),
                                                             np.asarray([T(s["ustar"])] * 2), np.asarray([T(s["L"])] * 2))),
        ]
        for wd in (None, 270):
            helpers.append(("estimateFootprint(wd=%r)" % (wd,), lambda T, wd=wd: km.estimateFootprint(
                T(s["zm"]), T(s["z0"]), T(s["ws"]), T(s["ustar"]), T(s["L"]), T(s["sv"]),
                [T(-60), T(120), T(-60), T(60)] if wd is None else [T(-120), T(60), T(-60), T(60)], T(5), [T(0), T(0)],
                wd=None if wd is None else T(wd))[2]))
        # only zm / only L integer-typed
        helpers.append(("estimateFootprint(only zm typed)", lambda T: km.estimateFootprint(
            T(s["zm"]), float(s["z0"]), float(s["ws"]), float(s["ustar"]), float(s["L"]), float(s["sv"]), [-60.0, 120.0, -60.0, 60.0], 5.0, [0.0, 0.0])[2]))
        helpers.append(("estimateFootprint(only mo_len typed)", lambda T: km.estimateFootprint(
            float(s["zm"]), float(s["z0"]), float(s["ws"]), float(s["ustar"]), T(s["L"]), float(s["sv"]), [-60.0, 120.0, -60.0, 60.0], 5.0, [0.0, 0.0])[2]))
        for fname, f in helpers:
            with warnings.catch_warnings():
                warnings.simplefilter("ignore")
                ref = f(np.float64)
                for tname, T in DTYPES:
                    n_eval += 1
                    try:
                        got = f(T)
                        okk = same(got, ref, tname == "float32")
                        detail = "" if okk else "max |diff| = %.6g (float64 peak %.6g, %s-typed peak %.6g)" % (
                            float(np.nanmax(np.abs(np.asarray(got, float) - np.asarray(ref, float)))), float(np.nanmax(np.abs(ref))), tname, float(np.nanmax(np.abs(got))))
                    except Exception as e:  # noqa
                        okk, detail = False, "raises %s: %s" % (type(e).__name__, e)
                    if not okk:
                        bad.append(("%s with %s-typed inputs differs from the float64 call" % (fname, tname), detail,
                                    {"kind": "dtype", "function": fname, "dtype": tname, "set": s}))
                        if first_only:
                            return bad, n_eval
    return bad, n_eval


# ------------------------------------------------------------------------------------------------
# estimateZ0: masks and recomposition


def gen_z0_case(rng, n, w, params):
    zm, ws, us, L, wd = [], [], [], [], []
    for i in range(n):
        p = params[rng.randrange(len(params))]
        zm.append(float(p["zm"])); ws.append(float(p["ws"])); us.append(float(p["ustar"])); L.append(float(p["L"]))
        wd.append(rng.randrange(0, 360 * 8) / 8.0)
    # boundary directions
    for k, v in enumerate([0.0, 359.875, 270.0, 90.0, 89.875, 270.125, 22.0, 338.0, 337.875, 23.0]):
        if k < n:
            wd[k] = v
    return dict(zm=zm, ws=ws, ustar=us, L=L, wd=wd, w=w)


def z0_call(km, c, w=None, wd=None):
    with warnings.catch_warnings():
        warnings.simplefilter("ignore")
        return km.estimateZ0(np.array(c["zm"]), np.array(c["ws"]), np.array(c["wd"] if wd is None else wd), np.array(c["ustar"]),
                             np.array(c["L"]), half_wd_win=c["w"] if w is None else w)


def same_nan(a, b):
    a, b = np.asarray(a, float), np.asarray(b, float)
    return a.shape == b.shape and bool(np.all((a == b) | (np.isnan(a) & np.isnan(b))))


# ------------------------------------------------------------------------------------------------
# check


def check(ctx):
    core.check_properties_file(ctx, "Properties/C19.v", THEOREMS_MAIN, core.AX_REALS)
    # coqchk (thorough tier of newer core.py) on the second file would re-check Interval, Flocq, Coquelicot and
    # mathcomp (> 40 min): it is run on the main file only
    prev = os.environ.get("VERIF_NO_COQCHK")
    os.environ["VERIF_NO_COQCHK"] = "1"
    try:
        core.check_properties_file(ctx, "Properties/C19Num.v", THEOREMS_NUM, core.AX_REALS)
    finally:
        if prev is None:
            os.environ.pop("VERIF_NO_COQCHK", None)
        else:
            os.environ["VERIF_NO_COQCHK"] = prev
    kmslices.run(ctx)
    km = impl()
    rng = ctx.rng
    hist = {"unstable": 0, "stable": 0, "near-neutral": 0, "U<0": 0, "cells:upwind": 0, "cells:downwind-or-axis": 0,
            "wd:none": 0, "wd:cardinal": 0, "wd:angle": 0}
    samples = []
    n_eval = 0
    distinct = set()

    # ---- (3) interval-certified correspondence
    nparams = 36 if ctx.thorough else 9
    ncell = 14 if ctx.thorough else 8
    params = gen_params(rng, nparams) + [dict(U_NEGATIVE)]
    files = {}
    label_hint = {}
    for k, p in enumerate(params):
        cid = "P%02d" % k
        pf = {kk: float(v) for kk, v in p.items()}
        a1 = lambda v: np.asarray([v])
        with warnings.catch_warnings():
            warnings.simplefilter("ignore")
            helpers_py = dict(
                phiM=float(km._phiM(a1(pf["zm"]), a1(pf["L"]))[0]), phiC=float(km._phiC(a1(pf["zm"]), a1(pf["L"]))[0]),
                psiM=float(km._psiM(a1(pf["zm"]), a1(pf["L"]))[0]), n=float(km._nParam(a1(pf["zm"]), a1(pf["L"]))[0]),
                m=float(km._mParam(a1(pf["zm"]), a1(pf["ws"]), a1(pf["ustar"]), a1(pf["L"]))[0]))
            z0raw_py = float(km.estimateZ0(a1(pf["zm"]), a1(pf["ws"]), a1(270.0), a1(pf["ustar"]), a1(pf["L"]), half_wd_win=0)[0])
        cells = []
        calls_ref = None
        grids = gen_grids(rng, pf, k)
        first_grid = grids[0][0]
        upos = kmhints.chain(pf["zm"], pf["z0"], pf["ws"], pf["ustar"], pf["L"], pf["sv"])["U"] > 0
        for gi, (grid, wd) in enumerate(grids):
            gx, gy, gf, calls, warns = call_fp(km, p, grid, wd)
            n_eval += 1
            if not (np.all(np.isfinite(gf)) and all(math.isfinite(a) and math.isfinite(b) for a, b in calls)):
                ctx.fail("correspondence", "C19:%s:g%d:non-finite" % (cid, gi), "estimateFootprint returns non-finite values / calls gamma on non-finite arguments for p=%r" % (p,),
                         hint={"kind": "cells", "p": p, "grid": grid, "wd": wd})
                continue
            if calls_ref is None:
                calls_ref = calls
            elif calls != calls_ref:
                ctx.fail("correspondence", "C19:%s:gamma-calls-differ-between-grids" % cid, "%r vs %r" % (calls, calls_ref),
                         hint={"kind": "cells", "p": p, "grid": grid, "wd": wd})
            hist["wd:none" if wd is None else ("wd:cardinal" if float(wd) in (0.0, 90.0, 180.0, 270.0) else "wd:angle")] += 1
            if not upos:
                if not (np.all(gf == 0) and len(warns) == 1 and not calls):
                    ctx.fail("correspondence", "C19:%s:U<0-not-empty" % cid, "U < 0 must return the all-zero grid with one warning",
                             hint={"kind": "cells", "p": p, "grid": grid, "wd": wd})
                picked = [(0, 0), (gf.shape[0] // 2, gf.shape[1] - 1)]
            else:
                picked = pick_cells(rng, gx, gy, gf, grid["mxy"], wd, ncell)
            X, _ = aligned_xy(gx, gy, grid["mxy"], wd)
            for (i, j) in picked:
                lbl = "%s:g%d:cell_%d_%d" % (cid, gi, i, j)
                cells.append((lbl, grid["res"], grid["mxy"], wd, float(gx[i, j]), float(gy[i, j]), float(gf[i, j])))
                label_hint[lbl] = {"kind": "cells", "p": p, "grid": grid, "wd": wd, "cell": [i, j]}
                hist["cells:upwind" if X[i, j] > 0 else "cells:downwind-or-axis"] += 1
                distinct.add((cid, gi, i, j))
            # exact grid geometry for dyadic grids
            files.setdefault("__grid__", []).append((cid, gi, grid, gx[0, :].tolist(), gy[:, 0].tolist()))
        if pf["L"] < 0:
            hist["unstable"] += 1
        else:
            hist["stable"] += 1
        if abs(pf["L"]) >= 1e5:
            hist["near-neutral"] += 1
        if p is params[-1]:
            hist["U<0"] += 1
        text, labels = coq_case(cid, pf, helpers_py, calls_ref or [], z0raw_py, cells)
        files["c19_%s.v" % cid] = (text, labels)
        for l in labels:
            label_hint.setdefault(l, {"kind": "cells", "p": p, "grid": first_grid, "wd": None})
        if k < 3:
            samples.append({"params": p, "gamma_calls": calls_ref, "cells": [{"label": c[0], "wd": c[3], "gx": c[4], "gy": c[5], "value": c[6]} for c in cells[:3]]})
    grid_jobs = files.pop("__grid__")
    ok, errs = run_coq_cases(ctx, files)
    total_labels = 0
    for name, (text, labels) in files.items():
        total_labels += len(labels)
        bad = [l for l in labels if l not in ok]
        if bad:
            first, tail = errs.get(name, (bad[0], ""))
            ctx.fail("correspondence", "C19:" + (first or bad[0]), "interval certification failed (%d later goals of this parameter set not reached): %s" % (len(bad) - 1, tail),
                     hint=label_hint.get(first or bad[0]))
    n_eval += total_labels

    # ---- (4a) grid geometry, exact over Q
    gcases = []
    for (cid, gi, grid, xs, ys) in grid_jobs:
        vals = list(grid["domain"]) + [grid["res"]]
        dy = all(Fraction(float(v)).denominator <= 1024 for v in vals)
        if not dy:
            continue
        term = "grid_ok %s %s %s %s %s %s %s" % tuple([qlit(float(v)) for v in vals] + [core.coq_list([qlit(x) for x in xs]), core.coq_list([qlit(y) for y in ys])])
        gcases.append(("%s_g%d" % (cid, gi), term))
    hdr = "From Coq Require Import QArith ZArith List.\nFrom BL Require Import Model.KMExec.\nImport ListNotations.\nOpen Scope Q_scope.\n"
    res = core.coq_eval_sharded(ctx, "c19_grid", hdr, gcases, shard=12)
    for cidg, _ in gcases:
        n_eval += 1
        if res.get(cidg) != "true":
            ctx.fail("correspondence", "C19:grid:%s" % cidg, "grid coordinates/counts differ from the model: %s" % (res.get(cidg) or res.get("__error__", ""))[:300])

    # ---- (4b) estimateZ0 smoothing: masks from the model, nanmedian re-composed
    zc = []
    ws_list = [22, 1, 22.5, 45, 89, 0.5, 0] if not ctx.thorough else [22, 1, 2.5, 10, 22.5, 45, 60.25, 89, 0.5, 0]
    stable_hi = dict(zm=10.0, z0=0.1, ws=2.0, ustar=0.3, L=5.0, sv=0.3)  # z0 > 1000 -> nan
    for w in ws_list:
        zc.append(gen_z0_case(rng, 28 if not ctx.thorough else 60, w, [{k: float(v) for k, v in q.items()} for q in params[:-1]] + [stable_hi]))
    mcases, meta = [], {}
    for ci, c in enumerate(zc):
        raw = z0_call(km, c, w=0)
        got = z0_call(km, c)
        n_eval += 1
        if c["w"] < 1:
            if not same_nan(raw, got):
                ctx.fail("correspondence", "C19:z0:nosmooth:%d" % ci, "half window < 1 must return the raw values", hint={"kind": "z0", "case": c})
            continue
        wdl = core.coq_list([qlit(x) for x in c["wd"]])
        for i, wd in enumerate(c["wd"]):
            cid = "z%d_%d" % (ci, i)
            mcases.append((cid, "window_mask %s %s %s" % (qlit(c["w"]), wdl, qlit(wd))))
            meta[cid] = (ci, i, raw, got)
    hdr = "From Coq Require Import QArith ZArith List.\nFrom BL Require Import Model.KMExec.\nImport ListNotations.\nOpen Scope Q_scope.\n"
    res = core.coq_eval_sharded(ctx, "c19_mask", hdr, mcases, shard=30)
    nmask_true = 0
    for cid, _ in mcases:
        ci, i, raw, got = meta[cid]
        txt = res.get(cid)
        n_eval += 1
        if txt is None:
            ctx.fail("correspondence", "C19:z0:mask:%s" % cid, "model evaluation failed: %s" % res.get("__error__", "")[-300:], hint={"kind": "z0", "case": zc[ci]})
            continue
        if txt.startswith("None"):
            exp = float("nan")
        else:
            mask = np.array([b == "true" for b in re.findall(r"true|false", txt)])
            nmask_true += int(mask.sum())
            with warnings.catch_warnings():
                warnings.simplefilter("ignore")
                exp = float(np.nanmedian(raw[mask])) if mask.any() else float("nan")
        g = float(got[i])
        if not (g == exp or (math.isnan(g) and math.isnan(exp))):
            ctx.fail("correspondence", "C19:z0:smoothed:%s" % cid, "estimateZ0[%d] = %r, nanmedian over the model's window = %r (w=%r, wd=%r)" % (i, g, exp, zc[ci]["w"], zc[ci]["wd"][i]),
                     hint={"kind": "z0", "case": zc[ci]})
    hist["z0:window-members"] = nmask_true

    # ---- (4c) dtype behaviour, exact
    bad, nd = dtype_probe(km)
    n_eval += nd
    for what, detail, rp in bad[:6]:
        ctx.fail("correspondence", "C19:dtype:%s:%s" % (rp["function"], rp["dtype"]), what + ": " + detail, hint=rp)
    hist["dtype:calls"] = nd
    hist["dtype:mismatches"] = len(bad)

    for h in REPEAT["bad"][:6]:
        ctx.fail("correspondence", "C19:repeat-after-the-caller-edited-the-returned-arrays",
                 "estimateFootprint called twice with the same arguments, the caller having shifted / rescaled / overwritten the arrays the first call returned: the second call returns other grids or another footprint (%s); p=%r grid=%r wd=%r"
                 % (h.get("error", "arrays differ"), h["p"], h["grid"], h["wd"]), hint=h)
    hist["repeat-after-edit:calls"] = REPEAT["n"]
    hist["repeat-after-edit:mismatches"] = len(REPEAT["bad"])
    ctx.cov.update(
        evaluations=n_eval,
        distinct_nontrivial=len(distinct) + len(mcases) + len(gcases),
        rule="non-trivial = distinct (parameter set, grid, cell) goals certified by interval + distinct (case, observation) window masks + distinct dyadic grids; "
             "parameter sets: %d anchors (test-suite set, near-neutral both signs, integer-valued, strongly stable/unstable) + log-law consistent random sets + one U<0 set; "
             "3 grids per set (wd=None, cardinal, arbitrary angle incl. 360/-90/450); cells: quantiles of the positive values, random upwind, downwind, on-axis (cardinal), upwind underflow" % len(ANCHORS),
        samples=samples,
        histogram=hist,
        interval_goals=total_labels,
    )


# ------------------------------------------------------------------------------------------------
# oracle: the property's own statement, independent closed form with scipy.special


def ref_footprint(p, X, Y, res):
    from scipy import special as sp

    zm, z0, ws, us, L, sv = (float(p[k]) for k in ("zm", "z0", "ws", "ustar", "L", "sv"))
    k = 0.4
    if L < 0:
        z = (1 - 16 * zm / L) ** 0.25
        phim, phic = 1 / z, 1 / z ** 2
        psi = -2 * np.log((1 + z) / 2) - np.log((1 + z * z) / 2) + 2 * np.arctan(z) - np.pi / 2
        n = (1 - 24 * zm / L) / (1 - 16 * zm / L)
    else:
        phim = phic = 1 + 5 * zm / L
        psi = 5 * zm / L
        n = 1 / (1 + 5 * zm / L)
    m = us * phim / (k * ws)
    U = us * (np.log(zm / z0) + psi) / (k * zm ** m)
    kap = k * us * zm / (phic * zm ** n)
    r = 2 + m - n
    mu = (1 + m) / r
    xi = U * zm ** r / (r * r * kap)
    out = np.zeros_like(X, dtype=float)
    info = dict(U=U, mu=mu, xi=xi, r=r, m=m, kap=kap)
    if U < 0:
        return out, info
    s = X > 0
    x, y = X[s], Y[s]
    fy = xi ** mu / sp.gamma(mu) * x ** (-1 - mu) * np.exp(-xi / x)
    ubar = sp.gamma(mu) / sp.gamma(1 / r) * (r * r * kap / U) ** (m / r) * U * x ** (m / r)
    sig = sv * x / ubar
    out[s] = fy * np.exp(-y * y / (2 * sig * sig)) / (np.sqrt(2 * np.pi) * sig) * res * res
    info["sigma"] = lambda xx: sv * xx / (sp.gamma(mu) / sp.gamma(1 / r) * (r * r * kap / U) ** (m / r) * U * xx ** (m / r))
    return out, info


def probe_cells(km, p, grid, wd):
    """closed form, sign, zero, symmetry on one configuration; returns [(signature, detail)]"""
    out = []
    with warnings.catch_warnings():
        warnings.simplefilter("ignore")
        gx, gy, gf = km.estimateFootprint(p["zm"], p["z0"], p["ws"], p["ustar"], p["L"], p["sv"], grid["domain"], grid["res"], grid["mxy"], wd=wd)
    X, Y = aligned_xy(gx, gy, [float(grid["mxy"][0]), float(grid["mxy"][1])], wd)
    ref, info = ref_footprint(p, X, Y, float(grid["res"]))
    peak = max(float(ref.max()), 1e-300)
    near = np.abs(X) <= 1e-9 * (np.abs(X) + np.abs(Y) + 1)
    err = np.abs(gf - ref)
    tol = 1e-9 * ref + 1e-12 * peak
    badm = (err > tol) & ~near
    if not np.all(np.isfinite(gf)):
        out.append(("closed-form:non-finite", "non-finite cell values"))
    elif badm.any():
        i, j = np.unravel_index(np.argmax(np.where(badm, err, 0)), err.shape)
        sig = "closed-form:cell" if (wd is None or float(wd) == 90.0) else ("rotation:90" if float(wd) % 90 == 0 else "rotation:angle")
        out.append((sig, "cell [%d,%d] (upwind x=%.6g, crosswind y=%.6g): estimateFootprint %.12g, published closed form %.12g (peak %.6g)" % (i, j, X[i, j], Y[i, j], gf[i, j], ref[i, j], peak)))
    if (gf < 0).any():
        out.append(("sign:negative", "negative cell value %.6g" % float(gf.min())))
    dz = (X < -1e-9 * (np.abs(Y) + 1)) & (gf != 0)
    if dz.any():
        i, j = np.argwhere(dz)[0]
        out.append(("downwind:nonzero", "cell [%d,%d] at upwind distance %.6g has value %.6g" % (i, j, X[i, j], gf[i, j])))
    if wd is None:
        # exact mirror symmetry when the receptor row is a mirror line of the grid
        ys = gy[:, 0] - float(grid["mxy"][1])
        if np.array_equal(ys, -ys[::-1]) and not np.array_equal(gf, gf[::-1, :]):
            out.append(("symmetry:crosswind", "grid mirror-symmetric about the wind axis but max |F(x,y)-F(x,-y)| = %.6g" % float(np.abs(gf - gf[::-1, :]).max())))
    return out


def probe_rot90(km, p, res, half, mxy):
    out = []
    dom = [mxy[0] - half, mxy[0] + half, mxy[1] - half, mxy[1] + half]
    with warnings.catch_warnings():
        warnings.simplefilter("ignore")
        f = {wd: km.estimateFootprint(p["zm"], p["z0"], p["ws"], p["ustar"], p["L"], p["sv"], dom, res, mxy, wd=wd)[2] for wd in (0, 90, 180, 270, 360)}
        fn = km.estimateFootprint(p["zm"], p["z0"], p["ws"], p["ustar"], p["L"], p["sv"], dom, res, mxy)[2]
    peak = max(float(f[0].max()), 1e-300)
    for k in (1, 2, 3, 4):
        d = float(np.abs(np.rot90(f[0], -k) - f[90 * k]).max())
        if not d <= 1e-9 * peak:
            out.append(("rotation:90", "wd=%d is not np.rot90(wd=0, %d): max diff %.6g (peak %.6g)" % (90 * k, -k, d, peak)))
            break
    d = float(np.abs(fn - f[90]).max())
    if not d <= 1e-9 * peak:
        out.append(("rotation:90", "wd=90 differs from the wind-aligned grid (wd=None): %.6g" % d))
    return out


def probe_mass(km, p):
    from scipy import special as sp

    _, info = ref_footprint(p, np.array([1.0]), np.array([0.0]), 1.0)
    if info["U"] <= 0:
        return []
    Xext = float(40 * p["zm"])
    W = float(min(max(8 * info["sigma"](Xext), 20.0), 4000.0))
    target = float(sp.gammaincc(info["mu"], info["xi"] / Xext))
    errs = []
    base = Xext / 40
    for f in (1, 2, 4, 8):
        res = base / f
        ny = int(math.ceil(W / res))
        with warnings.catch_warnings():
            warnings.simplefilter("ignore")
            gf = km.estimateFootprint(p["zm"], p["z0"], p["ws"], p["ustar"], p["L"], p["sv"], [0.0, Xext, -ny * res, ny * res], res, [0.0, 0.0])[2]
        errs.append(abs(float(gf.sum()) - target))
    out = []
    # monotone approach (each refinement at least as close, up to 2e-4 slack once the error is below it) to within 1e-3
    mono = all(errs[i + 1] <= errs[i] + 2e-4 for i in range(len(errs) - 1))
    if not (mono and errs[-1] <= 1e-3):
        out.append(("mass:limit", "sum over x in (0,%g], |y|<=%g at res %s: |sum - gammaincc(mu=%.6g, xi/X=%.6g)=%.6g| = %s" % (
            Xext, W, [base / f for f in (1, 2, 4, 8)], info["mu"], info["xi"] / Xext, target, ["%.3g" % e for e in errs])))
    return out


def circ_z0(raw, wd, w):
    out = np.full(len(wd), np.nan)
    for i in range(len(wd)):
        if not (0 <= wd[i] < 360):
            continue
        d = (wd - math.floor(wd[i]) + w) % 360
        sel = raw[d < 2 * w + 1]
        with warnings.catch_warnings():
            warnings.simplefilter("ignore")
            out[i] = np.nanmedian(sel) if len(sel) else np.nan
    return out


def probe_z0(km, c):
    out = []
    raw = z0_call(km, c, w=0)
    zm, ws, us, L = (np.array(c[k], dtype=float) for k in ("zm", "ws", "ustar", "L"))
    psi = np.where(L < 0, 0.0, 5 * zm / L)
    neg = L < 0
    z = (1 - 16 * zm[neg] / L[neg]) ** 0.25
    psi[neg] = -2 * np.log((1 + z) / 2) - np.log((1 + z * z) / 2) + 2 * np.arctan(z) - np.pi / 2
    ok = ~np.isnan(raw)
    back = us[ok] / 0.4 * (np.log(zm[ok] / raw[ok]) + psi[ok])
    if ok.any() and not np.all(np.abs(back - ws[ok]) <= 1e-10 * np.abs(ws[ok])):
        i = int(np.argmax(np.abs(back - ws[ok])))
        out.append(("z0:loglaw", "log law with the estimated z0 gives ws=%.12g, input ws=%.12g" % (back[i], ws[ok][i])))
    expect_nan = zm * np.exp(psi - 0.4 * ws / us) > 1000
    if not np.array_equal(np.isnan(raw), expect_nan):
        out.append(("z0:outlier", "nan pattern of raw z0 differs from z0 > 1000"))
    if c["w"] >= 1 and c["w"] <= 89:
        got = z0_call(km, c)
        wd = np.array(c["wd"], dtype=float)
        exp = circ_z0(raw, wd, c["w"])
        if not same_nan(got, exp):
            i = int(np.argmax(~((got == exp) | (np.isnan(got) & np.isnan(exp)))))
            out.append(("z0:window-circular", "observation %d (wd=%g, half window %g): estimateZ0 %r, circular-window median %r" % (i, wd[i], c["w"], got[i], exp[i])))
        for d in (1, 37, 90, 180, 271, 359):
            g2 = z0_call(km, c, wd=(wd + d) % 360)
            if not same_nan(got, g2):
                i = int(np.argmax(~((got == g2) | (np.isnan(got) & np.isnan(g2)))))
                out.append(("z0:rotation-invariance", "rotating all wind directions by %d deg changes estimateZ0[%d] (wd=%g, half window %g): %r -> %r" % (d, i, wd[i], c["w"], got[i], g2[i])))
                break
    return out


def oracle(ctx, hints):
    km = impl()
    rng = ctx.rng
    found = {}

    def add(sig, what, replay):
        if sig not in found:
            found[sig] = {"signature": sig, "what": "C19 " + sig + ": " + what, "replay": replay}

    # dtype first (exact criterion)
    bad, _ = dtype_probe(km, first_only=True)
    for what, detail, rp in bad:
        add("dtype:int-truncation" if rp["dtype"] != "float32" else "dtype:float32", what + ": " + detail, rp)
    cfgs = []
    for h in hints:
        if h and h.get("kind") == "cells":
            cfgs.append((h["p"], h["grid"], h["wd"]))
    npar = 24 if ctx.thorough else 8
    params = gen_params(rng, npar)
    for k, p in enumerate(params):
        pf = {kk: float(v) for kk, v in p.items()}
        for grid, wd in gen_grids(rng, pf, k):
            cfgs.append((p, grid, wd))
    for p, grid, wd in cfgs:
        try:
            n0 = len(REPEAT["bad"])
            call_fp(km, p, grid, wd)
            if len(REPEAT["bad"]) > n0:
                add("state:second-call-sees-the-callers-edits-of-the-first-result",
                    "estimateFootprint twice with the same arguments; between the calls the caller shifts gx, rescales gy and overwrites the footprint it was handed: the second call returns other arrays; p=%r grid=%r wd=%r" % (p, grid, wd),
                    {"kind": "cells", "p": p, "grid": grid, "wd": wd, "repeat_after_edit": True})
            res = probe_cells(km, p, grid, wd)
            if res and any(not isinstance(v, float) for v in p.values()):
                # integer-typed parameters: if the same numbers as floats satisfy the property, the cause is the dtype
                pf = {kk: float(v) for kk, v in p.items()}
                if not probe_cells(km, pf, grid, wd):
                    res = [("dtype:int-truncation", "integer-typed parameters change the result (the same values as floats satisfy the closed form): " + res[0][1])]
            for sig, detail in res:
                add(sig, "%s on p=%r grid=%r wd=%r" % (detail, p, grid, wd), {"kind": "cells", "p": p, "grid": grid, "wd": wd})
        except Exception as e:
            add("raises:" + type(e).__name__, "%s on p=%r grid=%r wd=%r" % (e, p, grid, wd), {"kind": "cells", "p": p, "grid": grid, "wd": wd})
    for k, p in enumerate(params[: (10 if ctx.thorough else 4)]):
        res, half, mxy = [(5.0, 100.0, [0.0, 0.0]), (2.5, 60.0, [12.5, -7.5]), (4.0, 82.0, [1.0, 3.0])][k % 3]
        for sig, detail in probe_rot90(km, p, res, half, mxy):
            add(sig, "%s on p=%r res=%r half=%r mxy=%r" % (detail, p, res, half, mxy), {"kind": "rot90", "p": p, "res": res, "half": half, "mxy": mxy})
    for p in params[: (8 if ctx.thorough else 3)]:
        for sig, detail in probe_mass(km, p):
            add(sig, "%s on p=%r" % (detail, p), {"kind": "mass", "p": p})
    zcases = [h["case"] for h in hints if h and h.get("kind") == "z0"]
    stable_hi = dict(zm=10.0, z0=0.1, ws=2.0, ustar=0.3, L=5.0, sv=0.3)
    for w in ([22, 1, 45, 89, 22.5] if not ctx.thorough else [22, 1, 2, 10, 22.5, 45, 60.25, 88, 89]):
        zcases.append(gen_z0_case(rng, 120 if not ctx.thorough else 400, w, [{k: float(v) for k, v in q.items()} for q in params] + [stable_hi]))
    for c in zcases:
        for sig, detail in probe_z0(km, c):
            add(sig, detail, {"kind": "z0", "case": c})
    return list(found.values())


SWEEP_IN_THOROUGH = True


def replay(body):
    km = impl()
    kind = body.get("kind")
    res = []
    if kind == "dtype":
        bad, _ = dtype_probe(km, sets=[body["set"]])
        res = [(w, d) for w, d, rp in bad if rp["function"] == body["function"] and rp["dtype"] == body["dtype"]] or [(w, d) for w, d, rp in bad]
    elif kind == "cells":
        res = probe_cells(km, body["p"], body["grid"], body["wd"])
        if body.get("repeat_after_edit"):
            n0 = len(REPEAT["bad"])
            call_fp(km, body["p"], body["grid"], body["wd"])
            if len(REPEAT["bad"]) > n0:
                res = list(res) + [("state:second-call-sees-the-callers-edits-of-the-first-result", "second identical call after the caller edited the returned arrays returns other arrays")]
    elif kind == "rot90":
        res = probe_rot90(km, body["p"], body["res"], body["half"], body["mxy"])
    elif kind == "mass":
        res = probe_mass(km, body["p"])
    elif kind == "z0":
        res = probe_z0(km, body["case"])
    else:
        print("replay carries no concrete input (broken proof obligation):", body.get("what"))
        for b in body.get("broken", []):
            print("  ", b.get("kind"), b.get("name"))
        return 1
    for sig, d in res:
        print("FAILS", sig, d)
    if not res:
        print("holds on this input")
    return 1 if res else 0
