"""C07 — reflection, axis swap, similarity."""
import numpy as np

import core
import solvercorr as sc
import solverslices
import roundedobs
from props.c04 import TRUSTED, ROUNDED_THEOREM_OF

THEOREMS = ["C07_mirror_x_partial", "C07_mirror_y_partial", "C07_transpose_partial", "C07_length_scaling",
            "C07_velocity_scaling", "C07_velocity_scaling_eig", "C07_sqrt_scale_in_C", "C07_transpose", "C07_transposed_request_geometry",
            "C07_mirror_geometry", "C07_mirror_x", "C07_mirror_x_defect", "C07_mirror_x_odd", "C07_mirror_y", "C07_mirror_y_defect", "C07_mirror_y_odd"]
# theorems that survive rounding (Properties/RoundedProps.v): the similarity group is exact in rounded arithmetic
THEOREMS_ROUNDED = ['C07_velocity_scaling_in_rounded_arithmetic', 'C07_length_scaling_in_rounded_arithmetic', 'Rounded_similarity',
                    'Rounded_float_instance_same_formulas', 'Rounded_binary_rounding_is_homogeneous']
# Properties/C07Recentre.v: array-level mirror in dispersion mode WITH the re-centring shift (Proofs/C07MirrorRC.v)
THEOREMS_RC = ["C07_mirror_recentred_geometry",
               "C07_mirror_x_recentred", "C07_mirror_x_recentred_defect", "C07_mirror_x_recentred_odd", "C07_mirror_x_recentred_even",
               "C07_mirror_y_recentred", "C07_mirror_y_recentred_defect", "C07_mirror_y_recentred_odd", "C07_mirror_y_recentred_even"]
# non-vacuity witnesses over the complex instance (stdlib real axioms)
EXAMPLES_RC = ["C07_mirror_recentred_hypotheses_satisfiable", "C07_mirror_recentred_origin_excluded"]
# Properties/C07MirrorSingle.v: the same mirror statements for single storage, as bounds (Proofs/C07MirrorSingle.v)
THEOREMS_SINGLE = ["C07_mirror_single_bound", "C07_mirror_single_bound_odd", "C07_mirror_single_bound_default",
                   "C07_mirror_y_single_bound", "C07_mirror_y_single_bound_odd", "C07_mirror_y_single_bound_default"]
ASSUMPTIONS = [
    "C07_velocity_scaling_in_rounded_arithmetic / C07_length_scaling_in_rounded_arithmetic: whole-result equations in rounded arithmetic (RndOps) for a scale factor s with rnd (s x) = s rnd x (arithmetic and storage rounding), s > 0 for the length scaling (the principal square root and the order tests see the sign); the background is divided by s in the velocity scaling and the halo, when given, is a length",
    "array-level mirror: proved for the fields synthesised without the unpaired (Nyquist) column/row of the retained frequency set, as an exact defect identity for the returned arrays, and for the returned arrays themselves when the clamped mode count is odd; footprint mode at both precisions; dispersion mode under double storage, at the default measurement point (Properties/C07.v) and with the re-centring shift (Properties/C07Recentre.v: reflected measurement point xm' = xmx - xm / ym' = ymx - ym, any real point, any halo; hypothesis: the request and the reflected request both satisfy the code's guard xm^2 + ym^2 > 0)",
    "dispersion mode with single storage: not an equality (rounding does not commute with the unit-modulus factor of the mirrored source spectrum) but a bound under the storage-rounding model |rnd x - x| <= eps |x| (Properties/C07MirrorSingle.v): mirror defect = Nyquist defect of the double-storage runs up to eps (Smodes m + Smodes a); 2 eps Smodes a for an odd mode count; rounding of the arithmetic itself is not modelled",
    "length scaling of the top condition uses sqrt(r/s^2) = sqrt(r)/s (principal root, real s > 0) as a hypothesis",
]


def gen(ctx):
    n = 45 if ctx.thorough else 15
    return [sc.mk_case(ctx.rng, aniso=True, kind=ctx.rng.choice(["vary", "const"]), analytic=False,
                       nx=ctx.rng.choice([4, 6, 5]), ny=ctx.rng.choice([4, 6, 3])) for _ in range(n)]


def check(ctx):
    core.check_properties_file(ctx, "Properties/C07.v", THEOREMS, {"C07_sqrt_scale_in_C": core.AX_REALS})
    core.check_properties_file(ctx, "Properties/RoundedProps.v", THEOREMS_ROUNDED, core.AX_REALS, coqchk=False)
    core.check_properties_file(ctx, "Properties/C07Recentre.v", THEOREMS_RC + EXAMPLES_RC,
                               dict({n: core.AX_NONE for n in THEOREMS_RC}, **{n: core.AX_REALS for n in EXAMPLES_RC}))
    core.check_properties_file(ctx, "Properties/C07MirrorSingle.v", THEOREMS_SINGLE, core.AX_REALS)
    solverslices.run(ctx)
    cases = gen(ctx)
    roundedobs.observe(ctx, "C07", cases, ["velocity", "length"], ROUNDED_THEOREM_OF, limit=(20 if ctx.thorough else 6))
    recs = sc.correspond(ctx, cases, "c07_")
    sc.summarize(ctx, cases, recs,
                 "solves with Kx != Ky != Kz, oblique winds, non-square grids and domains; distinct by full argument description",
                 nontrivial=lambda c: True)


def strip_nyquist(F, nlx, nly):
    """zero the unpaired (most negative) retained frequency rows/cols of a (.., ny, nx) array in Fourier space"""
    ny, nx = F.shape[-2:]
    H = np.fft.fft2(F, axes=(-2, -1))
    kx = np.fft.fftfreq(nx, 1.0 / nx)
    ky = np.fft.fftfreq(ny, 1.0 / ny)
    cx = min(nlx, nx) // 2
    cy = min(nly, ny) // 2
    H[..., :, np.abs(kx) >= cx] = 0
    H[..., np.abs(ky) >= cy, :] = 0
    return np.fft.ifft2(H, axes=(-2, -1)).real


def recentred_points(rng, nx, ny, Lx, Ly):
    """measurement points that take the re-centring branch (xm^2 + ym^2 > 0) and whose reflections
    (Lx - xm, ym) and (xm, Ly - ym) take it too: off-grid, on-grid, on one axis (xm = 0 with ym != 0
    reflects to xm' = Lx), near the far edge"""
    dx, dy = Lx / nx, Ly / ny
    return [(0.37 * Lx, 0.61 * Ly),
            (dx * rng.randrange(1, nx), dy * rng.randrange(ny)),
            (0.0, dy * rng.randrange(1, ny)),
            (0.3 * Lx, 0.0),
            (Lx - dx, Ly - dy),
            (rng.uniform(0.05, 0.95) * Lx, rng.uniform(0.05, 0.95) * Ly)]


def probe_recentred(S, base, rng, fields, rel, tol, force=None):
    """C07_mirror_x/_y_recentred on the real code: dispersion mode, double storage, measurement point
    other than the origin.  The reflected measurement point is the reflection about the DOMAIN CENTRE,
    xm' = xmx - xm (ym' = ymx - ym), not about the cell grid.  halo = 0: the returned grid is the
    periodic grid, so the unpaired Nyquist column/row can be removed by an FFT of the outputs (with an
    odd clamped mode count nothing is removed and the returned arrays themselves are compared);
    a second request WITH a halo is compared directly along every axis whose clamped mode count is odd."""
    out = []
    ny, nx = base["q0"].shape
    Lx, Ly = base["domain"]
    u, v, Kx, Ky, Kz = base["profiles"]
    nlx, nly = base["modes"]
    const = all(float(np.ptp(p)) == 0.0 for p in base["profiles"])
    rc = dict(base, footprint=False, precision="double", halo=0.0,
              analytic=bool(const and rng.random() < 0.5),
              meas_pt=rng.choice(recentred_points(rng, nx, ny, Lx, Ly)))
    dx, dy = Lx / nx, Ly / ny
    halo2 = rng.choice([dx, 1.3 * dx, 2 * dy])
    if force:  # replay of a recorded failing request
        rc["meas_pt"], rc["analytic"], halo2 = tuple(force["meas_pt"]), bool(force["analytic"]), force.get("halo2", halo2)
    xm, ym = rc["meas_pt"]
    forced = dict(meas_pt=list(rc["meas_pt"]), analytic=rc["analytic"], halo2=halo2)
    # (tag, request, filter applied to both sides, axes whose mirror is compared, tolerance)
    variants = [("", rc, lambda F: strip_nyquist(F, nlx, nly), "xy", tol),
                # single storage (C07_mirror_single_bound / _y_): a bound, not an equality — 2 eps * sum |amplitudes|;
                # checked with the storage tolerance the C02 oracle uses for single precision
                ("-single", dict(rc, precision="single"), lambda F: strip_nyquist(F, nlx, nly), "xy", 1e-4)]
    odd_axes = ("x" if nx % 2 == 1 else "") + ("y" if ny % 2 == 1 else "")
    if odd_axes:
        # odd padded size along an axis and a mode request above the padded sizes: the clamp gives an odd
        # count on that axis, nothing is unpaired there (C07_mirror_*_recentred_odd) — any halo
        variants.append(("-halo-odd", dict(rc, halo=halo2, modes=(64, 64)), lambda F: F, odd_axes, tol))
    for tag, r, flt, axes, vtol in variants:
        c0, f0 = fields(r)
        # single storage rounds the stored concentration relative to |C| ~ |bg|: compare C itself there
        bg = r["bg"] if r["precision"] == "double" else 0.0
        # deviations are measured against the magnitude of the UNFILTERED fields: after removing the Nyquist
        # components of a (2, 2)-mode request only the mean mode is left, which is rounding noise for a zero-mean source
        sf, scn = max(float(np.abs(f0).max()), 1e-300), max(float(np.abs(c0 - bg).max()), 1e-300)

        def rel(a, b, scale):
            return float(np.abs(a - b).max()) / scale
        if "x" in axes:
            mx = dict(r, q0=r["q0"][:, ::-1].copy(), profiles=(-u, v, Kx, Ky, Kz), meas_pt=(Lx - xm, ym))
            c1, f1 = fields(mx)
            d = max(rel(flt(f1), flt(f0[:, :, ::-1]), sf), rel(flt(c1 - bg), flt(c0[:, :, ::-1] - bg), scn))
            if d > vtol:
                out.append(("mirror-x-recentred" + tag,
                            "re-centred dispersion request (meas_pt %r, halo %r, modes %r; mirrored request at (xmx - xm, ym) = %r): mirrored problem differs from the mirrored fields by %.3g beyond the Nyquist components"
                            % (r["meas_pt"], r["halo"], r["modes"], mx["meas_pt"], d), forced))
        if "y" in axes:
            my = dict(r, q0=r["q0"][::-1, :].copy(), profiles=(u, -v, Kx, Ky, Kz), meas_pt=(xm, Ly - ym))
            c2, f2 = fields(my)
            d = max(rel(flt(f2), flt(f0[:, ::-1, :]), sf), rel(flt(c2 - bg), flt(c0[:, ::-1, :] - bg), scn))
            if d > vtol:
                out.append(("mirror-y-recentred" + tag,
                            "re-centred dispersion request (meas_pt %r, halo %r, modes %r; mirrored request at (xm, ymx - ym) = %r): mirrored problem differs by %.3g beyond the Nyquist components"
                            % (r["meas_pt"], r["halo"], r["modes"], my["meas_pt"], d), forced))
    return out


def probe(S, case, rng, force=None):
    """list of (signature, detail[, forced re-centred request]) of the symmetry statements that fail on this case"""
    out = []
    ny, nx = case["q0"].shape
    lv = sc.levels_list(case)
    tol = 1e-9
    base = dict(case, halo=0.0, precision="double", analytic=False)
    dx, dy = base["domain"][0] / nx, base["domain"][1] / ny
    if base["footprint"]:
        base["meas_pt"] = (dx * rng.randrange(nx), dy * rng.randrange(ny))
    else:
        base["meas_pt"] = (0.0, 0.0)
    u, v, Kx, Ky, Kz = base["profiles"]
    nlx, nly = base["modes"]

    def fields(c):
        _, cc, ff = sc.call(S, c)
        n_y, n_x = c["q0"].shape
        return np.asarray(cc, float).reshape(len(lv), n_y, n_x), np.asarray(ff, float).reshape(len(lv), n_y, n_x)  # float64 copies (also of float32 results)

    def rel(a, b):
        return float(np.abs(a - b).max() / max(np.abs(b).max(), 1e-300))

    c0, f0 = fields(base)
    # Nyquist-filtered comparisons are measured against the magnitude of the UNFILTERED fields (with a (2, 2)-mode
    # request only the mean mode survives the filter, and that is rounding noise for a zero-mean source)
    sf, scn = max(float(np.abs(f0).max()), 1e-300), max(float(np.abs(c0 - base["bg"]).max()), 1e-300)

    def rels(a, b, scale):
        return float(np.abs(a - b).max()) / scale

    # mirror in x: flip the source, negate u; tower mirrored
    mx = dict(base, q0=base["q0"][:, ::-1].copy(), profiles=(-u, v, Kx, Ky, Kz))
    if base["footprint"]:
        mx["meas_pt"] = ((nx - 1) * dx - base["meas_pt"][0], base["meas_pt"][1])
    c1, f1 = fields(mx)
    d = max(rels(strip_nyquist(f1, nlx, nly), strip_nyquist(f0[:, :, ::-1], nlx, nly), sf),
            rels(strip_nyquist(c1 - base["bg"], nlx, nly), strip_nyquist(c0[:, :, ::-1] - base["bg"], nlx, nly), scn))
    if d > tol:
        out.append(("mirror-x", "mirrored problem differs from the mirrored fields by %.3g beyond the Nyquist components" % d))
    my = dict(base, q0=base["q0"][::-1, :].copy(), profiles=(u, -v, Kx, Ky, Kz))
    if base["footprint"]:
        my["meas_pt"] = (base["meas_pt"][0], (ny - 1) * dy - base["meas_pt"][1])
    c2, f2 = fields(my)
    d = max(rels(strip_nyquist(f2, nlx, nly), strip_nyquist(f0[:, ::-1, :], nlx, nly), sf),
            rels(strip_nyquist(c2 - base["bg"], nlx, nly), strip_nyquist(c0[:, ::-1, :] - base["bg"], nlx, nly), scn))
    if d > tol:
        out.append(("mirror-y", "mirrored problem differs by %.3g beyond the Nyquist components" % d))
    # the same with a halo that is NOT a whole number of cells, along every axis with an odd padded size: a mode request
    # above the padded sizes is clamped to an odd count there, no column/row is unpaired and the returned arrays
    # themselves are mirrored (C07_mirror_x_odd / _y_odd hold for every halo)
    odd_axes = ("x" if nx % 2 == 1 else "") + ("y" if ny % 2 == 1 else "")
    if odd_axes:
        hb = dict(base, halo=1.3 * max(dx, dy), modes=(64, 64))
        ch, fh = fields(hb)
        sfh, sch = max(float(np.abs(fh).max()), 1e-300), max(float(np.abs(ch - hb["bg"]).max()), 1e-300)
        for ax in odd_axes:
            flip = (lambda F: F[:, :, ::-1]) if ax == "x" else (lambda F: F[:, ::-1, :])
            hm = dict(hb, q0=(hb["q0"][:, ::-1] if ax == "x" else hb["q0"][::-1, :]).copy(),
                      profiles=(-u, v, Kx, Ky, Kz) if ax == "x" else (u, -v, Kx, Ky, Kz))
            if hb["footprint"]:
                xm0, ym0 = hb["meas_pt"]
                hm["meas_pt"] = ((nx - 1) * dx - xm0, ym0) if ax == "x" else (xm0, (ny - 1) * dy - ym0)
            c6, f6 = fields(hm)
            d = max(rels(f6, flip(fh), sfh), rels(c6 - hb["bg"], flip(ch) - hb["bg"], sch))
            if d > tol:
                out.append(("mirror-%s-halo-odd" % ax,
                            "halo %r (not a whole number of cells), odd clamped mode count: mirrored problem (meas_pt %r -> %r) differs from the mirrored fields by %.3g"
                            % (hb["halo"], hb["meas_pt"], hm["meas_pt"], d)))
    out += probe_recentred(S, base, rng, fields, rel, tol, force)
    # transpose
    tr = dict(base, q0=base["q0"].T.copy(), profiles=(v, u, Ky, Kx, Kz), domain=(base["domain"][1], base["domain"][0]),
              modes=(nly, nlx), meas_pt=(base["meas_pt"][1], base["meas_pt"][0]))
    c3, f3 = fields(tr)
    d = max(rel(f3, np.transpose(f0, (0, 2, 1))), rel(c3 - base["bg"], np.transpose(c0, (0, 2, 1)) - base["bg"]))
    if d > tol:
        out.append(("transpose", "axis-swapped problem differs from the transposed fields by %.3g" % d))
    # length scaling
    s = rng.choice([0.01, 0.5, 3.0, 250.0])
    ls = dict(base, z=base["z"] * s, profiles=(u, v, Kx * s, Ky * s, Kz * s), domain=(base["domain"][0] * s, base["domain"][1] * s),
              meas_pt=(base["meas_pt"][0] * s, base["meas_pt"][1] * s), halo=0.0)
    c4, f4 = fields(ls)
    d = max(rel(f4, f0), rel(c4 - base["bg"], c0 - base["bg"]))
    if d > 1e-8:
        out.append(("length-scaling", "lengths and diffusivities x %g change the fields by %.3g" % (s, d)))
    # velocity scaling
    s = rng.choice([0.02, 0.5, 4.0, 100.0])
    vs = dict(base, profiles=(u * s, v * s, Kx * s, Ky * s, Kz * s))
    c5, f5 = fields(vs)
    d = max(rel(f5, f0), rel((c5 - base["bg"]) * s, c0 - base["bg"]))
    if d > 1e-8:
        out.append(("velocity-scaling", "winds and diffusivities x %g: flux / scaled concentration differ by %.3g" % (s, d)))
    return out


def oracle(ctx, hints):
    S = sc.impl()
    pool = [sc.from_full(h["case"]) for h in hints if h and "case" in h]
    cases = gen(ctx)
    pool += cases[:: (1 if ctx.thorough else 2)]
    found = {}
    for case in pool:
        try:
            for sig, detail, *extra in probe(S, case, ctx.rng):
                found.setdefault(sig, (detail, case, extra[0] if extra else None))
        except Exception as e:
            found.setdefault("solver-raises:" + type(e).__name__, (str(e), case, None))
    return [{"signature": sig, "what": "C07 %s: %s on %r" % (sig, d, sc.describe(c)),
             "replay": dict({"case": sc.full(c), "detail": d}, **({"recentred": x} if x else {}))}
            for sig, (d, c, x) in found.items()]


def replay(body):
    import random

    S = sc.impl()
    res = []
    for s in range(3):
        res += probe(S, sc.from_full(body["case"]), random.Random(s), body.get("recentred"))
    for sig, d, *_ in res:
        print("FAILS", sig, d)
    if not res:
        print("holds on this input")
    return 1 if res else 0
