"""C13 — the config-driven single run equals the explicit wind -> profiles -> source -> solver pipeline.

Tie between bldfm.interface.run_bldfm_single / bldfm.config_parser and Model/Interface.v:
  (1) argument correspondence: the four low-level functions are wrapped in bldfm.interface's namespace by
      recorders; what they actually receive (floats by bit pattern, arrays by sha1 of dtype+shape+bytes, identity of
      the values handed from one call to the next) is encoded over integer tokens and compared INSIDE Coq with
      `plumb_c` evaluated on the token encoding of the same configuration;
  (2) result correspondence: the arrays returned by run_bldfm_single are bit-equal to the pipeline written out by
      hand in this file (by_hand) with numbers selected from the raw dictionary by this file;
  (3) parser correspondence: parse_config_dict vs `parse` (symbolic tokens) on generated dictionaries incl. omitted
      sections/keys, null sections, missing mandatory parts; and a YAML file vs the equal dictionary give equal
      dataclasses;
  (4) the configured surface flux itself, utils.ideal_source, against Model/IdealSource.v (Properties/C13Ideal.v):
      whole-function translation + Bridge/IdealBridge.v (harness/idealslices.py), exact 0/1 patterns against the rational
      twin and interval-certified Gaussian cells (harness/idealcorr.py).
The implementation side runs in sub-processes (`python c13.py job in.json out.json`)."""
import hashlib
import itertools
import json
import os
import random
import sys
import tempfile

import core

THEOREMS = ["C13_plumb", "C13_rules", "C13_run_is_pipeline", "C13_parse_defaults", "C13_parse_keys",
            "C13_parse_raises", "C13_yaml_dict"]
# second properties file (Properties/C13Ideal.v): the configured surface flux, utils.ideal_source, over Coq's reals
THEOREMS_IDEAL = ["C13i_shape", "C13i_shape_dispatch", "C13i_unknown_shape_zero", "C13i_default_location", "C13i_diamond",
                  "C13i_circle", "C13i_indicator_empty", "C13i_diamond_in_circle", "C13i_circle_not_in_diamond", "C13i_nodes",
                  "C13i_nodes_vs_solver_grid", "C13i_mirror", "C13i_default_symmetric", "C13i_transpose",
                  "C13i_point_closed_form", "C13i_point_positive_decreasing", "C13i_point_max_at_nearest_node",
                  "C13i_seen_from_solver_grid", "C13i_point_peak_normalisation", "C13i_scaling", "C13i_exec_sound"]
TRUSTED = [
    "harness/py2coq_interface.py (fail-closed `ast` transliteration of run_bldfm_single, the _parse_* functions, parse_config_dict, load_config, the dataclass fields/defaults, BLDFMConfig.__post_init__ and TowerConfig.compute_local_xy into the description types of Model/InterfaceDesc.v; positional arguments are resolved in Coq through the callees' signatures read from utils.py / pbl_model.py / solver.py) and the semantics given to those descriptions in Model/InterfaceDesc.v (run_desc, place_desc: Python's None / `is None` / truthiness, dict access, field name -> model projection); Bridge/InterfaceBridge.v and Bridge/ConfigParserBridge.v prove per run that they equal plumb_c / place / the parser tables for ALL arguments, Proofs/InterfaceBridgeLemmas.v relates the tables to Interface.parse_*",
    "Model/Interface.v is hand-written; tied to interface.run_bldfm_single by recording the arguments the four pipeline functions actually receive (exact: bit patterns, array digests, object hand-over) and to config_parser.parse_config_dict by differential execution",
    "C13_run_is_pipeline and C13_yaml_dict hold by construction of the model; their content on the real code is the bit-equality of result arrays with the by-hand pipeline and the YAML-file-vs-dictionary dataclass equality measured by the correspondence",
    "PyYAML (yaml.safe_load / safe_dump), CPython dataclass equality, inspect.signature binding used by the recorders",
    "the numerical routines (compute_wind_fields, vertical_profiles, ideal_source, steady_state_transport_solver) are deterministic functions of their arguments within one process (C12)",
    "harness/idealslices.py (fail-closed whole-function reading of utils.ideal_source as an elementwise program: numpy broadcasting of scalar/2-d operands, np.where / np.abs / np.sqrt / np.exp elementwise, np.meshgrid(x, y)[j,i] = (x[i], y[j]), np.zeros, `if shape == lit` blocks as guarded re-bindings) and Model/IdealSource.np_linspace standing for numpy.linspace (start + i*(stop-start)/(num-1), the single node `start` for num = 1; validated against numpy on every run by the correspondence); Bridge/IdealBridge.v proves per run that the generated cell function equals ideal_source_cell for ALL arguments",
    "Properties/C13Ideal.v is over Coq's reals (stdlib real axioms); IEEE rounding inside ideal_source is not covered by a theorem: indicator cells are compared exactly where the float evaluation is exact or the exact margin exceeds a stated rounding bound (harness/idealcorr.py, the other cells are counted, not compared), Gaussian cells by interval-certified goals with 1e-12 relative tolerance",
]
ASSUMPTIONS = [
    "ideal_source: nx, ny are Python integers >= 0 (np.zeros / np.linspace reject anything else), the extents and the location are finite Python/numpy real numbers, shape is a str; theorems about the Gaussian assume 0 < xmx and 0 < nx where stated",
    "scalars are opaque to run_bldfm_single (it only selects and forwards them): distinct scalars of a configuration get distinct integer tokens, equal scalars the same token",
    "valid configurations: values have the documented shapes (scalars, lists, booleans, integer nz and output_levels); dictionaries have unique keys",
    "the YAML library returns for a file the dictionary it denotes (Section variable yaml_load in C13_yaml_dict)",
    "tower local coordinates are taken as computed by the configuration object (their formula is C17)",
    "tie (B) reads the source text only: the four pipeline functions are the module-level, undecorated definitions that interface.py imports by name (checked), nothing rebinds them or the configuration classes at run time (monkey-patching is outside the static tie; the recorded-call correspondence would see it), MetConfig.get_step is as modelled in Model/Met.v (C16), and a dataclass __init__ stores each keyword in the field of that name",
]

FLUXTOK = 900001
CACHETOK = 900002
UNKNOWN = -7

# --------------------------------------------------------------------------------------------------
# case generation (no bldfm import needed)

DIMS = {
    "closure": ["MOST", "MOSTM", "CONSTANT"],
    "precision": ["single", "double"],
    "footprint": [False, True],
    "analytic": [False, True],
    "halo": ["default", "explicit", "zero"],  # zero: an explicit `halo: 0.0` (periodic domain) is a value, not "not given"
    "modes": ["default", "explicit"],
    "levels": ["default", "full", "ol", "ol1", "ol+full", "empty+full", "empty"],
    "forcing": ["z0", "ustar", "both"],
    "series": ["scalar", "list2", "list3"],
    "stamps": [False, True],
    "towers": [1, 2, 3],
    "ref": [False, True],
    "flux": ["ideal", "ideal+loc", "user"],
    "shape": ["diamond", "circle", "point"],
    "cache": [False, True],
    "omit_defaults": [False, True],
    "grid": [(6, 8), (8, 6), (4, 8)],
}


def draw_opts(rng, fixed=None):
    o = {k: rng.choice(v) for k, v in DIMS.items()}
    if fixed:
        o.update(fixed)
    return o


def distinct(rng, n, lo, hi, taken, q=1024):
    """n pairwise distinct dyadic floats in [lo, hi) not in `taken`"""
    out = []
    while len(out) < n:
        v = lo + rng.randrange(0, int((hi - lo) * q)) / q
        if v not in taken:
            taken.add(v)
            out.append(v)
    return out


def make_raw(rng, o):
    taken = set()
    nx, ny = o["grid"]
    dom = {"nx": nx, "ny": ny}
    dom["xmax"] = 10.0 * nx + distinct(rng, 1, 0.0, 2.0, taken)[0]
    dom["ymax"] = 10.0 * ny + distinct(rng, 1, 2.0, 4.0, taken)[0]
    if rng.random() < 0.25:  # YAML-style integers for xmax / ymax: float() in the parser
        dom["xmax"] = 10 * nx + 1
        dom["ymax"] = 10 * ny + 3
    nz = rng.choice([2, 3, 4])
    dom["nz"] = nz
    if o["modes"] == "explicit":
        dom["modes"] = rng.choice([[4, 6], [6, 4], [4, 4]])
    if o["halo"] == "explicit":
        dom["halo"] = distinct(rng, 1, 12.0, 28.0, taken)[0]
    elif o["halo"] == "zero":
        dom["halo"] = 0.0
    lv = o["levels"]
    if lv in ("ol", "ol+full"):
        k = rng.sample(range(nz + 1), 2)
        dom["output_levels"] = sorted(k) if rng.random() < 0.7 else k
    elif lv == "ol1":
        dom["output_levels"] = [rng.randrange(0, nz + 1)]
    elif lv in ("empty", "empty+full"):
        dom["output_levels"] = []
    if lv in ("full", "ol+full", "empty+full"):
        dom["full_output"] = True
    elif not o["omit_defaults"]:
        dom["full_output"] = False
    # reference origins on the equator / the prime meridian are legitimate values, not "no origin given"
    blat, blon = rng.choice([(50.0, 11.0), (50.0, 11.0), (0.0, 11.0), (50.0, 0.0), (0.0, 0.0)]) if o["ref"] else (50.0, 11.0)
    if o["ref"]:
        dom["ref_lat"] = blat + (distinct(rng, 1, 0.0, 0.0001, taken, q=2 ** 24)[0] if blat != 0.0 else 0.0)
        dom["ref_lon"] = blon + (distinct(rng, 1, 0.0001, 0.0002, taken, q=2 ** 24)[0] if blon != 0.0 else 0.0)
    towers = []
    zs = distinct(rng, o["towers"], 2.5, 6.0, taken)
    for k in range(o["towers"]):
        towers.append({
            "name": "T%d_%03d" % (k, rng.randrange(1000)),
            "lat": blat + distinct(rng, 1, 0.0002, 0.0005, taken, q=2 ** 24)[0],
            "lon": blon + distinct(rng, 1, 0.0005, 0.0009, taken, q=2 ** 24)[0],
            "z_m": zs[k],
        })
    n = {"scalar": 1, "list2": 2, "list3": 3}[o["series"]]
    names = ["mol", "wind_speed", "wind_dir"] + (["ustar"] if o["forcing"] in ("ustar", "both") else [])
    as_list = set()
    if n > 1:
        as_list = {f for f in names if rng.random() < 0.6}
        if not as_list:
            as_list = {rng.choice(names)}
    elif rng.random() < 0.3:
        as_list = {f for f in names if rng.random() < 0.5}  # lists of length one
    ranges = {"ustar": (0.3, 0.55), "mol": (-160.0, -40.0), "wind_speed": (2.5, 5.5), "wind_dir": (1.0, 359.0)}
    met = {}
    for f in names:
        lo, hi = ranges[f]
        if f in as_list:
            met[f] = distinct(rng, n, lo, hi, taken)
        else:
            met[f] = distinct(rng, 1, lo, hi, taken)[0]
    if o["forcing"] in ("z0", "both"):
        met["z0"] = distinct(rng, 1, 0.03, 0.2, taken)[0]
    if o["stamps"]:
        met["timestamps"] = ["2024-06-%02dT%02d:30" % (1 + rng.randrange(28), h) for h in rng.sample(range(24), n)]
    sol = {"closure": o["closure"], "precision": o["precision"], "footprint": o["footprint"],
           "analytic": o["analytic"], "surface_flux_shape": o["shape"]}
    if o["flux"] == "ideal+loc":
        sol["src_loc"] = [distinct(rng, 1, 20.0, 30.0, taken)[0], distinct(rng, 1, 30.0, 40.0, taken)[0]]
    if o["omit_defaults"]:
        dflt = {"closure": "MOST", "precision": "single", "footprint": False, "analytic": False,
                "surface_flux_shape": "diamond"}
        sol = {k: v for k, v in sol.items() if k not in dflt or dflt[k] != v}
    raw = {"domain": dom, "towers": towers, "met": met}
    if sol or not o["omit_defaults"]:
        raw["solver"] = sol
    if rng.random() < 0.3:
        raw["parallel"] = {"max_workers": rng.choice([2, 3]), "use_cache": rng.random() < 0.5}
    if rng.random() < 0.2:
        raw["output"] = {"format": "netcdf", "directory": "./out_%d" % rng.randrange(100)}
    return raw, n


def gen_cases(rng, n_random, full_product=False):
    """list of case dicts {opts, raw, n, flux_seed, cache, tuples:[(tower index, time index)]}"""
    cases = []
    seen_pairs = set()
    keys = sorted(DIMS)

    def add(o):
        raw, n = make_raw(rng, o)
        tuples = [(k, i) for k in range(o["towers"]) for i in range(n)]
        tuples.append((rng.randrange(o["towers"]), n))  # one past the end: IndexError, or a scalar-only series
        cases.append({"opts": {k: (list(v) if isinstance(v, tuple) else v) for k, v in o.items()}, "raw": raw, "n": n,
                      "flux_seed": rng.randrange(1 << 30) if o["flux"] == "user" else None,
                      "cache": o["cache"], "tuples": tuples})
        for a, b in itertools.combinations(keys, 2):
            seen_pairs.add((a, str(o[a]), b, str(o[b])))

    if full_product:
        core_dims = ["closure", "precision", "footprint", "analytic", "halo", "modes", "levels", "forcing", "series"]
        for combo in itertools.product(*[DIMS[k] for k in core_dims]):
            add(draw_opts(rng, dict(zip(core_dims, combo))))
    for _ in range(n_random):
        add(draw_opts(rng))
    # complete the pairwise coverage
    for a, b in itertools.combinations(keys, 2):
        for va in DIMS[a]:
            for vb in DIMS[b]:
                if (a, str(va), b, str(vb)) not in seen_pairs:
                    add(draw_opts(rng, {a: va, b: vb}))
    n_pairs = sum(len(DIMS[a]) * len(DIMS[b]) for a, b in itertools.combinations(keys, 2))
    return cases, len(seen_pairs), n_pairs


# --------------------------------------------------------------------------------------------------
# implementation side (runs in a sub-process)

def vkey(v):
    import numpy as np

    if isinstance(v, (bool, np.bool_)):
        return ("b", bool(v))
    if isinstance(v, (int, np.integer)):
        return ("i", int(v))
    if isinstance(v, (float, np.floating)):
        return ("f", float(v).hex())
    if isinstance(v, str):
        return ("s", v)
    return ("?", repr(type(v)))


class Tokens:
    def __init__(self, preset=None):
        self.t = dict(preset or {})
        self.next = 1

    def add(self, v):
        if v is None:
            return
        if isinstance(v, (list, tuple)):
            for x in v:
                self.add(x)
            return
        k = vkey(v)
        if k not in self.t:
            self.t[k] = self.next
            self.next += 1

    def tok(self, v):
        if v is None or isinstance(v, (list, tuple, dict)):
            return UNKNOWN
        return self.t.get(vkey(v), UNKNOWN)

    def otok(self, v):
        return -1 if v is None else self.tok(v)


def adigest(a):
    import numpy as np

    a = np.asarray(a)
    h = hashlib.sha1()
    h.update(str(a.dtype).encode())
    h.update(str(a.shape).encode())
    h.update(np.ascontiguousarray(a).tobytes())
    return h.hexdigest()


def same_bits(a, b):
    import numpy as np

    try:
        return adigest(np.asarray(a)) == adigest(np.asarray(b))
    except Exception:
        return False


class Sentinel:
    """a cache object that never hits (so that results stay comparable) but is recognisable"""

    def get(self, *a, **k):
        return None

    def put(self, *a, **k):
        return None


class Recorders:
    NAMES = ["compute_wind_fields", "vertical_profiles", "ideal_source", "steady_state_transport_solver"]

    def __init__(self, itf):
        import inspect

        self.itf = itf
        self.orig = {n: getattr(itf, n) for n in self.NAMES}
        self.sig = {n: inspect.signature(self.orig[n]) for n in self.NAMES}
        self.calls = []

    def __enter__(self):
        for n in self.NAMES:
            setattr(self.itf, n, self._wrap(n))
        return self

    def __exit__(self, *exc):
        for n in self.NAMES:
            setattr(self.itf, n, self.orig[n])

    def _wrap(self, n):
        def w(*a, **k):
            ba = self.sig[n].bind(*a, **k)
            ba.apply_defaults()
            rec = {"fn": n, "args": dict(ba.arguments), "ret": None}
            self.calls.append(rec)
            rec["ret"] = self.orig[n](*a, **k)
            return rec["ret"]

        w.__name__ = n
        return w

    def of(self, n):
        return [c for c in self.calls if c["fn"] == n]


def defaults_of(sig, skip):
    import inspect

    return {k: p.default for k, p in sig.parameters.items() if k not in skip and p.default is not inspect.Parameter.empty}


def enc_stamp(T, v):
    if isinstance(v, int) and not isinstance(v, bool):
        return [-402, v]
    return [-401, T.tok(v)]


def enc_params(T, p):
    if not isinstance(p, dict) or not ({"ustar", "mol", "wind_speed", "wind_dir", "timestamp"} <= set(p)) \
            or set(p) - {"ustar", "mol", "wind_speed", "wind_dir", "timestamp", "z0"}:
        return [UNKNOWN]
    return [T.otok(p["ustar"]), T.tok(p["mol"]), T.tok(p["wind_speed"]), T.tok(p["wind_dir"]),
            T.otok(p.get("z0"))] + enc_stamp(T, p["timestamp"])


def enc_observed(T, R, result, flux, cache_obj):
    """the recorded calls as the integer list Model/InterfaceExec.enc_calls produces for the model"""
    import numpy as np

    wc, pc, ic, sc = (R.of(n) for n in Recorders.NAMES)
    if len(wc) != 1 or len(pc) != 1 or len(ic) > 1 or len(sc) != 1:
        return [-8, len(wc), len(pc), len(ic), len(sc)]
    w, p, s = wc[0], pc[0], sc[0]
    enc_w = [T.tok(w["args"]["u_rot"]), T.tok(w["args"]["wind_dir"])]

    def wout(x, which):
        try:
            u, v = w["ret"]
        except Exception:
            return [UNKNOWN]
        if which == 0 and same_bits(x, u):
            return [-101] + enc_w
        if which == 1 and same_bits(x, v):
            return [-102] + enc_w
        if same_bits(x, u):
            return [-101] + enc_w
        if same_bits(x, v):
            return [-102] + enc_w
        return [UNKNOWN]

    pa = p["args"]
    pd = defaults_of(R.sig["vertical_profiles"], {"n", "meas_height", "wind", "ustar", "z0", "mol", "closure"})
    extras_ok = all(pa[k] is pd[k] or pa[k] == pd[k] for k in pd)
    try:
        w0, w1 = pa["wind"]
    except Exception:
        w0 = w1 = None
    n_arg = pa["n"] if isinstance(pa["n"], int) and not isinstance(pa["n"], bool) else UNKNOWN
    enc_p = [n_arg if extras_ok else -8, T.tok(pa["meas_height"])] + wout(w0, 0) + wout(w1, 1) + \
            [T.otok(pa["ustar"]), T.otok(pa["z0"]), T.tok(pa["mol"]), T.tok(pa["closure"])]

    def elist(l):
        l = list(l)
        return [len(l)] + [T.tok(x) for x in l]

    enc_ideal = None
    if ic:
        ia = ic[0]["args"]
        try:
            nxy = list(ia["nxy"])
            dmn = list(ia["domain"])
            enc_ideal = [-202, T.tok(nxy[0]), T.tok(nxy[1]), T.tok(dmn[0]), T.tok(dmn[1])] + \
                        ([-1] if ia["src_loc"] is None else elist(ia["src_loc"])) + [T.tok(ia["shape"])]
            if len(nxy) != 2 or len(dmn) != 2:
                enc_ideal = [UNKNOWN]
        except Exception:
            enc_ideal = [UNKNOWN]
    enc_supplied = [-201, FLUXTOK]
    if ic:
        enc_src = enc_ideal
    else:
        enc_src = enc_supplied if flux is not None else [UNKNOWN]
    sa = s["args"]
    srf = sa["srf_flx"]
    if flux is not None and (srf is flux or same_bits(srf, flux)):
        enc_srf = enc_supplied
    elif ic and (srf is ic[0]["ret"] or same_bits(srf, ic[0]["ret"])):
        enc_srf = enc_ideal
    else:
        enc_srf = [UNKNOWN]
    try:
        zr, pr = p["ret"]
        zp_ok = same_bits(sa["z"], zr) and len(sa["profiles"]) == len(pr) and \
            all(same_bits(a, b) for a, b in zip(sa["profiles"], pr))
    except Exception:
        zp_ok = False
    lv = sa["levels"]
    if np.ndim(lv) == 0:
        enc_lv = [-302, int(lv) if isinstance(lv, (int, np.integer)) and not isinstance(lv, bool) else UNKNOWN]
    else:
        lv = list(lv)
        enc_lv = [-301, len(lv)] + [int(x) if isinstance(x, (int, np.integer)) and not isinstance(x, bool) else UNKNOWN for x in lv]

    def eb(x):
        return 1 if x is True else (0 if x is False else UNKNOWN)

    bg_ok = isinstance(sa["srf_bg_conc"], float) and sa["srf_bg_conc"] == 0.0
    try:
        d0, d1 = sa["domain"]
        m0, m1 = sa["meas_pt"]
    except Exception:
        d0 = d1 = m0 = m1 = None
    if sa["cache"] is None:
        enc_cache = -1
    elif sa["cache"] is cache_obj:
        enc_cache = CACHETOK
    else:
        enc_cache = UNKNOWN
    enc_s = enc_srf + (enc_p if zp_ok else [UNKNOWN]) + [T.tok(d0), T.tok(d1) if bg_ok else -8] + enc_lv + \
        elist(sa["modes"]) + [T.tok(m0), T.tok(m1), eb(sa["footprint"]), eb(sa["analytic"]), T.otok(sa["halo"]),
                              T.tok(sa["precision"]), enc_cache]
    # labels, from the returned dictionary
    try:
        xy = list(result["tower_xy"])
        enc_l = [T.tok(result["tower_name"]), T.tok(xy[0]), T.tok(xy[1])] + enc_stamp(T, result["timestamp"]) + \
            enc_params(T, result["params"])
        if len(xy) != 2 or set(result) != {"grid", "conc", "flx", "tower_name", "tower_xy", "timestamp", "params"}:
            enc_l = [UNKNOWN]
    except Exception:
        enc_l = [UNKNOWN]
    return enc_w + enc_p + enc_src + enc_s + enc_l


def sel(v, i):
    return v[i] if isinstance(v, list) else v


DFLT = {"modes": [512, 512], "mol": 1e9, "wind_speed": 5.0, "wind_dir": 270.0, "closure": "MOST", "precision": "single",
        "shape": "diamond", "footprint": False, "analytic": False, "full_output": False}


def by_hand(mods, raw, cfg, k, i, flux):
    """The documented low-level workflow, written out, with the numbers picked from the raw dictionary here
    (an omitted optional key stands for the parser's default, read off the implementation by probe_defaults)."""
    cwf, vp, ids, sst = mods
    dom, met, sol = raw["domain"], raw["met"], raw.get("solver") or {}
    # the tower's local coordinates, by hand: latlon_to_xy of its position when the domain gives a reference origin
    # (any value, 0.0 included), (0, 0) otherwise
    import types
    if dom.get("ref_lat") is not None and dom.get("ref_lon") is not None:
        import bldfm.config_parser as _cp
        tx, ty = _cp.latlon_to_xy(raw["towers"][k]["lat"], raw["towers"][k]["lon"], dom["ref_lat"], dom["ref_lon"])
    else:
        tx, ty = 0.0, 0.0
    tw = types.SimpleNamespace(x=tx, y=ty)
    speed = sel(met.get("wind_speed", DFLT["wind_speed"]), i)
    wdir = sel(met.get("wind_dir", DFLT["wind_dir"]), i)
    mol = sel(met.get("mol", DFLT["mol"]), i)
    u, v = cwf(speed, wdir)
    closure = sol.get("closure", DFLT["closure"])
    if met.get("z0") is not None:
        z, prof = vp(dom["nz"], raw["towers"][k]["z_m"], (u, v), z0=met["z0"], mol=mol, closure=closure)
    else:
        z, prof = vp(dom["nz"], raw["towers"][k]["z_m"], (u, v), ustar=sel(met["ustar"], i), mol=mol, closure=closure)
    xmax, ymax = float(dom["xmax"]), float(dom["ymax"])
    if flux is None:
        sl = sol.get("src_loc")
        srf = ids((dom["nx"], dom["ny"]), (xmax, ymax), src_loc=None if sl is None else tuple(sl),
                  shape=sol.get("surface_flux_shape", DFLT["shape"]))
    else:
        srf = flux
    if dom.get("output_levels"):
        levels = dom["output_levels"]
    elif dom.get("full_output", DFLT["full_output"]):
        levels = list(range(dom["nz"] + 1))
    else:
        levels = dom["nz"]
    grid, conc, flx = sst(srf, z, prof, (xmax, ymax), levels, modes=tuple(dom.get("modes", DFLT["modes"])),
                          meas_pt=(tw.x, tw.y), footprint=sol.get("footprint", DFLT["footprint"]),
                          analytic=sol.get("analytic", DFLT["analytic"]), halo=dom.get("halo"),
                          precision=sol.get("precision", DFLT["precision"]))
    ts = met.get("timestamps")
    params = {"ustar": sel(met.get("ustar"), i) if met.get("ustar") is not None else None, "mol": mol,
              "wind_speed": speed, "wind_dir": wdir}
    if met.get("z0") is not None:
        params["z0"] = met["z0"]
    params["timestamp"] = ts[i] if ts is not None else i
    labels = {"tower_name": raw["towers"][k]["name"], "tower_xy": (tw.x, tw.y),
              "timestamp": params["timestamp"], "params": params}
    return {"grid": grid, "conc": conc, "flx": flx}, labels


def outcome(fn):
    try:
        return ("ok", fn())
    except Exception as e:  # compared by type between the two sides
        return ("raise:" + type(e).__name__, None)


def arrays_of(r):
    return [("grid0", r["grid"][0]), ("grid1", r["grid"][1]), ("grid2", r["grid"][2]), ("conc", r["conc"]), ("flx", r["flx"])]


def compare_results(a, b):
    """bit-equality of all arrays; returns list of differing names"""
    import numpy as np

    bad = []
    try:
        for (n1, x), (n2, y) in zip(arrays_of(a), arrays_of(b)):
            x, y = np.asarray(x), np.asarray(y)
            if x.dtype != y.dtype or x.shape != y.shape or x.tobytes() != y.tobytes():
                dev = None
                if x.shape == y.shape:
                    with np.errstate(all="ignore"):
                        dev = float(np.nanmax(np.abs(x.astype(float) - y.astype(float)))) if x.size else 0.0
                bad.append("%s(dtype %s/%s shape %s/%s maxdev %s)" % (n1, x.dtype, y.dtype, x.shape, y.shape, dev))
    except Exception as e:
        bad.append("structure:" + repr(e))
    return bad


def labels_equal(res, lab):
    bad = []
    for k in ("tower_name", "tower_xy", "timestamp", "params"):
        try:
            a, b = res[k], lab[k]
            if k == "tower_xy":
                ok = tuple(a) == tuple(b) and all(vkey(x) == vkey(y) for x, y in zip(a, b))
            elif k == "params":
                ok = isinstance(a, dict) and set(a) == set(b) and all(
                    (a[q] is None and b[q] is None) or vkey(a[q]) == vkey(b[q]) for q in b)
            else:
                ok = vkey(a) == vkey(b)
        except Exception:
            ok = False
        if not ok:
            bad.append(k)
    return bad


def load_impl():
    sys.path.insert(0, core.SRC)
    import bldfm.config_parser as cp
    import bldfm.interface as itf
    from bldfm.pbl_model import vertical_profiles
    from bldfm.solver import steady_state_transport_solver
    from bldfm.utils import compute_wind_fields, ideal_source

    mods = (compute_wind_fields, vertical_profiles, ideal_source, steady_state_transport_solver)
    try:
        DFLT.update(probe_defaults(cp)[3])
    except Exception:
        pass  # the literal documented defaults stay
    return cp, itf, mods


def cfg_tokens(cfg):
    T = Tokens()
    d = cfg.domain
    for v in (d.nx, d.ny, d.xmax, d.ymax, list(d.modes), d.halo, d.ref_lat, d.ref_lon):
        T.add(v)
    for t in cfg.towers:
        for v in (t.name, t.lat, t.lon, t.z_m, t.x, t.y):
            T.add(v)
    m = cfg.met
    for v in (m.ustar, m.mol, m.wind_speed, m.wind_dir, m.z0, m.timestamps):
        T.add(v)
    s = cfg.solver
    for v in (s.closure, s.precision, s.surface_flux_shape, s.src_loc):
        T.add(v)
    for v in (cfg.output.format, cfg.output.directory, cfg.parallel.num_threads, cfg.parallel.max_workers):
        T.add(v)
    return T


def coq_bool(b):
    return "true" if b else "false"


def coq_oz(T, v):
    return "None" if v is None else "(Some (%d))" % T.tok(v)


def coq_zs(T, l):
    return "[%s]" % "; ".join("(%d)" % T.tok(x) for x in l)


def coq_fld(T, v):
    if isinstance(v, list):
        return "(Lst %s)" % coq_zs(T, v)
    return "(Scalar (%d))" % T.tok(v)


def coq_tower(T, t):
    return "(@mkTower Z (%d) (%d) (%d) (%d) (%d) (%d))" % tuple(T.tok(v) for v in (t.name, t.lat, t.lon, t.z_m, t.x, t.y))


def coq_config(T, cfg):
    d, m, s = cfg.domain, cfg.met, cfg.solver
    ol = "None" if d.output_levels is None else "(Some [%s])" % "; ".join("%d%%nat" % x for x in d.output_levels)
    dom = "(@mkDomain Z (%d) (%d) (%d) (%d) %d%%nat %s %s %s %s %s %s)" % (
        T.tok(d.nx), T.tok(d.ny), T.tok(d.xmax), T.tok(d.ymax), d.nz, coq_zs(T, d.modes), coq_oz(T, d.halo),
        coq_oz(T, d.ref_lat), coq_oz(T, d.ref_lon), ol, coq_bool(d.full_output))
    met = "(@mkMet Z Z %s %s %s %s %s %s)" % (
        "None" if m.ustar is None else "(Some %s)" % coq_fld(T, m.ustar), coq_fld(T, m.mol), coq_fld(T, m.wind_speed),
        coq_fld(T, m.wind_dir), coq_oz(T, m.z0), "None" if m.timestamps is None else "(Some %s)" % coq_zs(T, m.timestamps))
    sol = "(@mkSolverCfg Z (%d) (%d) %s (%d) %s %s)" % (
        T.tok(s.closure), T.tok(s.precision), coq_bool(s.footprint), T.tok(s.surface_flux_shape), coq_bool(s.analytic),
        "None" if s.src_loc is None else "(Some %s)" % coq_zs(T, s.src_loc))
    out = "(@mkOutputCfg Z (%d) (%d))" % (T.tok(cfg.output.format), T.tok(cfg.output.directory))
    par = "(@mkParallelCfg Z (%d) (%d) %s)" % (T.tok(cfg.parallel.num_threads), T.tok(cfg.parallel.max_workers),
                                               coq_bool(cfg.parallel.use_cache))
    return "(@mkConfig Z Z %s [%s] %s %s %s %s)" % (dom, "; ".join(coq_tower(T, t) for t in cfg.towers), met, sol, out, par)


def run_case(impl, case):
    """returns one record per (tower, index) tuple"""
    import numpy as np

    cp, itf, mods = impl
    raw = case["raw"]
    cfg = cp.parse_config_dict(json.loads(json.dumps(raw)))
    T = cfg_tokens(cfg)
    flux = None
    if case["flux_seed"] is not None:
        d = raw["domain"]
        flux = np.random.default_rng(case["flux_seed"]).random((d["ny"], d["nx"]))
    cache_obj = Sentinel() if case["cache"] else None
    cfg_term = coq_config(T, cfg)
    out = []
    for (k, i) in case["tuples"]:
        tw = cfg.towers[k]
        with Recorders(itf) as R:
            kind, res = outcome(lambda: itf.run_bldfm_single(cfg, tw, met_index=i, surface_flux=flux, cache=cache_obj))
        if kind == "ok":
            obs = enc_observed(T, R, res, flux, cache_obj)
        elif kind == "raise:IndexError" and not R.calls:
            obs = [-999]
        elif kind.startswith("raise:") and len(R.of("steady_state_transport_solver")) == 1:
            # the solver itself raised (e.g. analytic with several levels): the calls were made; labels are not observable.
            obs = None
        else:
            obs = [-9]
        hkind, hres = outcome(lambda: by_hand(mods, raw, cfg, k, i, flux))
        rec = {"k": k, "i": i, "kind": kind, "hand_kind": hkind, "diff": [], "labels": []}
        if kind == "ok" and hkind == "ok":
            rec["diff"] = compare_results(res, hres[0])
            rec["labels"] = labels_equal(res, hres[1])
        elif kind != hkind and not (kind == "raise:IndexError" and hkind in ("raise:IndexError", "raise:TypeError")):
            rec["diff"] = ["outcome %s vs by-hand %s" % (kind, hkind)]
        if obs is None:
            # compare the calls only: re-encode with the labels the model predicts is impossible, so compare the prefix
            with_labels = enc_observed(T, R, {"tower_name": tw.name, "tower_xy": (tw.x, tw.y),
                                              "timestamp": hres_stamp(raw, i), "params": hres_params(raw, i),
                                              "grid": 0, "conc": 0, "flx": 0}, flux, cache_obj)
            obs = with_labels
            rec["labels_not_observable"] = True
        rec["obs"] = obs
        rec["term"] = "agree_plumb %s %s %d%%nat %s %s [%s]" % (
            cfg_term, coq_tower(T, tw), i, "None" if flux is None else "(Some (%d))" % FLUXTOK,
            "None" if cache_obj is None else "(Some (%d))" % CACHETOK, "; ".join("(%d)" % x for x in obs))
        out.append(rec)
    return out


def hres_stamp(raw, i):
    ts = raw["met"].get("timestamps")
    return ts[i] if ts is not None else i


def hres_params(raw, i):
    met = raw["met"]
    p = {"ustar": sel(met.get("ustar"), i) if met.get("ustar") is not None else None, "mol": sel(met.get("mol", DFLT["mol"]), i),
         "wind_speed": sel(met.get("wind_speed", DFLT["wind_speed"]), i), "wind_dir": sel(met.get("wind_dir", DFLT["wind_dir"]), i)}
    if met.get("z0") is not None:
        p["z0"] = met["z0"]
    p["timestamp"] = hres_stamp(raw, i)
    return p


# ---- parser correspondence -----------------------------------------------------------------------

def probe_defaults(cp):
    """the literal defaults, read off the implementation: section omitted (dataclass defaults) and section given but
    empty (the d.get literals) must agree, since the model has one default per key"""
    def minimal():
        return {"domain": {"nx": 4, "ny": 4, "xmax": 10.0, "ymax": 10.0, "nz": 2},
                "towers": [{"name": "p", "lat": 0.5, "lon": 0.25, "z_m": 2.0}], "met": {"z0": 0.125}}
    a = cp.parse_config_dict(minimal())
    m = minimal()
    m.update({"solver": {}, "output": {}, "parallel": {}})
    b = cp.parse_config_dict(m)
    vals = [("modes", list(a.domain.modes)), ("mol", a.met.mol), ("wind_speed", a.met.wind_speed), ("wind_dir", a.met.wind_dir),
            ("closure", a.solver.closure), ("precision", a.solver.precision), ("shape", a.solver.surface_flux_shape),
            ("format", a.output.format), ("directory", a.output.directory), ("num_threads", a.parallel.num_threads),
            ("max_workers", a.parallel.max_workers)]
    bools = [a.domain.full_output, a.solver.footprint, a.solver.analytic, a.parallel.use_cache]
    zero = a.towers[0].x
    ok = (a == b) and all(isinstance(x, bool) for x in bools) and a.towers[0].y == zero and a.solver.src_loc is None \
        and a.domain.halo is None and a.domain.output_levels is None
    preset = {}
    for _, v in vals + [("zero", zero)]:
        for x in (v if isinstance(v, list) else [v]):
            k = vkey(x)
            if k not in preset:
                preset[k] = -10 - len(preset)
    T = Tokens(preset)

    def tk(v):
        return "Tk (%d)" % T.tok(v)
    defs = "Definition DD : defaults tm := mkDefaults [%s] %s %s.\nDefinition ZZ : tm := %s.\n" % (
        "; ".join(tk(x) for x in vals[0][1]), " ".join("(%s)" % tk(v) for _, v in vals[1:]),
        " ".join(coq_bool(x) for x in bools), tk(zero))
    dvals = dict(vals)
    dvals.update({"full_output": bools[0], "footprint": bools[1], "analytic": bools[2]})
    return preset, defs, ok, {k: dvals[k] for k in DFLT}


NAT_KEYS = {"nz"}
NATS_KEYS = {"output_levels"}


def raw_tokens(raw, preset):
    T = Tokens(preset)

    def walk(v):
        if isinstance(v, dict):
            for k, x in v.items():
                if k not in NAT_KEYS and k not in NATS_KEYS:
                    walk(x)
        elif isinstance(v, list):
            for x in v:
                walk(x)
        elif v is not None and not isinstance(v, bool):
            T.add(v)

    walk(raw)
    return T


def coq_sdict(T, d):
    items = []
    for k, v in d.items():
        if v is None:
            s = "SNull"
        elif isinstance(v, bool):
            s = "SBool %s" % coq_bool(v)
        elif k in NAT_KEYS:
            s = "SNat %d%%nat" % v
        elif k in NATS_KEYS:
            s = "SNats [%s]" % "; ".join("%d%%nat" % x for x in v)
        elif isinstance(v, list):
            s = "SSeq [%s]" % "; ".join("Tk (%d)" % T.tok(x) for x in v)
        else:
            s = "SAtom (Tk (%d))" % T.tok(v)
        items.append('("%s"%%string, %s)' % (k, s))
    return "[%s]" % "; ".join(items)


def coq_raw(T, raw):
    items = []
    for k, v in raw.items():
        if v is None:
            s = "RNull"
        elif k == "towers":
            s = "RTowers [%s]" % "; ".join(coq_sdict(T, t) for t in v)
        else:
            s = "RSection %s" % coq_sdict(T, v)
        items.append('("%s"%%string, %s)' % (k, s))
    return "([%s] : raw tm)" % "; ".join(items)


def enc_parsed(cp, T, raw, cfg):
    """mirror of Model/InterfaceExec.enc_config, directed by the field"""
    def tm(v):
        return [0, T.tok(v)]

    def otm(v):
        return [-1] if v is None else tm(v)

    def tms(l):
        l = list(l)
        return [len(l)] + [x for v in l for x in tm(v)]

    def otms(l):
        return [-1] if l is None else tms(l)

    def fld(v):
        return [-502] + tms(v) if isinstance(v, list) else [-501] + tm(v)

    def eb(b):
        return 1 if b is True else (0 if b is False else UNKNOWN)

    def flt(field, rawv):
        ok = isinstance(field, float) and not isinstance(rawv, bool) and field.hex() == float(rawv).hex()
        return [1] + tm(rawv) if ok else tm(UNKNOWN_OBJ)

    d = cfg.domain
    rd = raw["domain"]
    out = tm(d.nx) + tm(d.ny) + flt(d.xmax, rd["xmax"]) + flt(d.ymax, rd["ymax"]) + [d.nz] + tms(d.modes) + \
        otm(d.halo) + otm(d.ref_lat) + otm(d.ref_lon) + \
        ([-1] if d.output_levels is None else [len(d.output_levels)] + list(d.output_levels)) + [eb(d.full_output)]
    if not isinstance(d.modes, tuple):
        out = [UNKNOWN]
    out += [len(cfg.towers)]
    for t in cfg.towers:
        if d.ref_lat is not None and d.ref_lon is not None:
            ex, ey = cp.latlon_to_xy(t.lat, t.lon, d.ref_lat, d.ref_lon)
            geo = tm(t.lat) + tm(t.lon) + tm(d.ref_lat) + tm(d.ref_lon)
            x = [2] + geo if vkey(t.x) == vkey(ex) else tm(UNKNOWN_OBJ)
            y = [3] + geo if vkey(t.y) == vkey(ey) else tm(UNKNOWN_OBJ)
        else:
            x, y = tm(t.x), tm(t.y)
        out += tm(t.name) + tm(t.lat) + tm(t.lon) + tm(t.z_m) + x + y
    m = cfg.met
    out += ([-1] if m.ustar is None else fld(m.ustar)) + fld(m.mol) + fld(m.wind_speed) + fld(m.wind_dir) + \
        otm(m.z0) + otms(m.timestamps)
    s = cfg.solver
    if s.src_loc is not None and not isinstance(s.src_loc, tuple):
        out += [UNKNOWN]
    out += tm(s.closure) + tm(s.precision) + [eb(s.footprint)] + tm(s.surface_flux_shape) + [eb(s.analytic)] + otms(s.src_loc)
    out += tm(cfg.output.format) + tm(cfg.output.directory) + tm(cfg.parallel.num_threads) + \
        tm(cfg.parallel.max_workers) + [eb(cfg.parallel.use_cache)]
    return [1] + out


class _Unknown:
    pass


UNKNOWN_OBJ = _Unknown()


def mutate_raw_for_parse(rng, raw):
    """variants for the parser: omitted optional keys/sections, null sections, missing mandatory parts"""
    r = json.loads(json.dumps(raw))
    kind = rng.choice(["as-is", "as-is", "drop-optional-keys", "null-sections", "drop-sections", "missing-section",
                       "missing-key", "bad-met", "null-optionals"])
    if kind == "drop-optional-keys":
        for sec, keys in (("domain", ["modes", "halo", "ref_lat", "ref_lon", "output_levels", "full_output"]),
                          ("met", ["mol", "wind_speed", "wind_dir", "timestamps"]),
                          ("solver", ["closure", "precision", "footprint", "analytic", "surface_flux_shape", "src_loc"]),
                          ("parallel", ["num_threads", "max_workers", "use_cache"]), ("output", ["format", "directory"])):
            if isinstance(r.get(sec), dict):
                for k in keys:
                    if k in r[sec] and rng.random() < 0.5:
                        del r[sec][k]
        if isinstance(r["met"].get("mol"), list) or isinstance(r["met"].get("wind_speed"), list):
            pass
    elif kind == "null-sections":
        for sec in ("solver", "output", "parallel"):
            if rng.random() < 0.6:
                r[sec] = None
    elif kind == "drop-sections":
        for sec in ("solver", "output", "parallel"):
            r.pop(sec, None)
    elif kind == "missing-section":
        r.pop(rng.choice(["domain", "towers", "met"]))
    elif kind == "missing-key":
        sec = rng.choice(["domain", "towers"])
        if sec == "domain":
            r["domain"].pop(rng.choice(["nx", "ny", "xmax", "ymax", "nz"]))
        else:
            r["towers"][-1].pop(rng.choice(["name", "lat", "lon", "z_m"]))
    elif kind == "bad-met":
        w = rng.choice(["no-forcing", "length", "stamps"])
        if w == "no-forcing":
            r["met"].pop("ustar", None)
            r["met"].pop("z0", None)
        elif w == "length":
            r["met"]["wind_dir"] = [10.5, 20.5, 30.5, 40.5]
            r["met"]["mol"] = [-10.5, -20.5]
        else:
            r["met"]["timestamps"] = ["a", "b", "c", "d", "e"]
    elif kind == "null-optionals":
        for sec, keys in (("domain", ["halo", "ref_lat", "ref_lon", "output_levels"]), ("met", ["ustar", "z0", "timestamps"]),
                          ("solver", ["src_loc"])):
            if isinstance(r.get(sec), dict):
                for k in keys:
                    if rng.random() < 0.4:
                        r[sec][k] = None
    # a dropped list-valued forcing field changes the series length; keep the rest as it is: validate decides
    return kind, r


def run_parse_case(impl, rng, raw, tmpdir, idx, preset):
    import yaml

    cp, itf, mods = impl
    kind, r = mutate_raw_for_parse(rng, raw)
    T = raw_tokens(r, preset)
    try:
        cfg = cp.parse_config_dict(json.loads(json.dumps(r)))
        exp = enc_parsed(cp, T, r, cfg)
        out = "parsed"
    except (ValueError, KeyError) as e:
        cfg, exp, out = None, [-2], "raises:" + type(e).__name__
    except Exception as e:
        cfg, exp, out = None, [-4], "raises:" + type(e).__name__
    rec = {"kind": kind, "raw": r, "outcome": out,
           "term": "agree_parse DD ZZ %s [%s]" % (coq_raw(T, r), "; ".join("(%d)" % x for x in exp))}
    # YAML file vs the equal dictionary
    path = os.path.join(tmpdir, "cfg_%d.yaml" % idx)
    style = rng.choice([None, False, True])
    with open(path, "w") as f:
        f.write("# generated by the C13 check\n")
        yaml.safe_dump(r, f, default_flow_style=style, sort_keys=rng.random() < 0.5)
    try:
        ycfg = cp.load_config(path)
        yout = "parsed"
    except (ValueError, KeyError) as e:
        ycfg, yout = None, "raises:" + type(e).__name__
    except Exception as e:
        ycfg, yout = None, "raises:" + type(e).__name__
    rec["yaml_equal"] = (yout == out) and (cfg == ycfg) and (cfg is None or repr(cfg) == repr(ycfg))
    rec["yaml_outcome"] = yout
    # a caller that edits the configuration it was given (a sweep over forcing / options) and then loads the
    # unchanged file again must get the file's content, not its own edits (history of loads)
    if ycfg is not None and rec["yaml_equal"]:
        try:
            scribble_config(ycfg)
            again = cp.load_config(path)
            if again is ycfg or again != cfg or repr(again) != repr(cfg):
                rec["yaml_equal"] = False
                rec["yaml_outcome"] = "second load of the unchanged file after the caller edited the first result: differs from the dictionary parse"
        except Exception as e:
            rec["yaml_equal"] = False
            rec["yaml_outcome"] = "second load raises " + type(e).__name__
    return rec


def scribble_config(cfg):
    """what a sweep script does to a configuration object it owns"""
    try:
        cfg.met.wind_dir = 123.456
        cfg.met.ustar = 0.2345
        cfg.solver.footprint = not cfg.solver.footprint
        cfg.domain.halo = 7.25
        cfg.domain.output_levels = [0]
        for t in cfg.towers:
            t.x, t.y = t.x + 3.5, t.y - 1.25
    except Exception:
        pass


HAND_YAML = [
    ("""# hand-written, block style, optional sections omitted
domain:
  nx: 6
  ny: 8
  xmax: 61
  ymax: 83.5
  nz: 3
  modes: [4, 6]
  halo: 20.5
towers:
  - name: north
    lat: 50.0003
    lon: 11.0007
    z_m: 3.25
met:
  ustar: [0.31, 0.42]
  mol: -75.5
  wind_speed: 4.25
  wind_dir: [215.5, 118.25]
  timestamps: ["2024-06-01T00:30", "2024-06-01T01:00"]
solver:
""", {"domain": {"nx": 6, "ny": 8, "xmax": 61, "ymax": 83.5, "nz": 3, "modes": [4, 6], "halo": 20.5},
       "towers": [{"name": "north", "lat": 50.0003, "lon": 11.0007, "z_m": 3.25}],
       "met": {"ustar": [0.31, 0.42], "mol": -75.5, "wind_speed": 4.25, "wind_dir": [215.5, 118.25],
               "timestamps": ["2024-06-01T00:30", "2024-06-01T01:00"]}, "solver": None}),
    ("""{domain: {nx: 8, ny: 6, xmax: 80.0, ymax: 60.0, nz: 2, ref_lat: 50.0, ref_lon: 11.0, full_output: true, output_levels: []},
 towers: [{name: a, lat: 50.0002, lon: 11.0003, z_m: 2.5}, {name: b, lat: 50.0004, lon: 11.0001, z_m: 4.5}],
 met: {z0: 0.0625, mol: 1.0e+9, wind_speed: 3.5},
 solver: {closure: CONSTANT, precision: double, footprint: true, src_loc: [25.5, 31.0], surface_flux_shape: point},
 parallel: {max_workers: 3, use_cache: true}, output: {directory: ./elsewhere}}
""", {"domain": {"nx": 8, "ny": 6, "xmax": 80.0, "ymax": 60.0, "nz": 2, "ref_lat": 50.0, "ref_lon": 11.0,
                  "full_output": True, "output_levels": []},
       "towers": [{"name": "a", "lat": 50.0002, "lon": 11.0003, "z_m": 2.5},
                  {"name": "b", "lat": 50.0004, "lon": 11.0001, "z_m": 4.5}],
       "met": {"z0": 0.0625, "mol": 1.0e9, "wind_speed": 3.5},
       "solver": {"closure": "CONSTANT", "precision": "double", "footprint": True, "src_loc": [25.5, 31.0],
                  "surface_flux_shape": "point"},
       "parallel": {"max_workers": 3, "use_cache": True}, "output": {"directory": "./elsewhere"}}),
]


def job_main(argv):
    spec = json.load(open(argv[2]))
    os.environ.setdefault("MPLBACKEND", "Agg")
    impl = load_impl()
    rng = random.Random(spec["seed"])
    res = {"plumb": [], "parse": [], "hand_yaml": []}
    for case in spec["cases"]:
        try:
            res["plumb"].append({"case": case["id"], "records": run_case(impl, case)})
        except Exception:
            import traceback

            res["plumb"].append({"case": case["id"], "error": traceback.format_exc()})
    tmpdir = tempfile.mkdtemp(prefix="c13yaml_", dir=os.getcwd())
    preset, defs, dok, _ = probe_defaults(impl[0])
    res["defaults_def"] = defs
    res["defaults_consistent"] = dok
    for j, case in enumerate(spec["cases"]):
        for rep in range(spec.get("parse_reps", 1)):
            try:
                rec = run_parse_case(impl, rng, case["raw"], tmpdir, j * 100 + rep, preset)
            except Exception:
                import traceback

                rec = {"error": traceback.format_exc(), "raw": case["raw"]}
            rec["case"] = case["id"]
            res["parse"].append(rec)
    if spec.get("hand_yaml"):
        cp = impl[0]
        for n, (text, d) in enumerate(HAND_YAML):
            p = os.path.join(tmpdir, "hand_%d.yaml" % n)
            open(p, "w").write(text)
            try:
                a, b = cp.load_config(p), cp.parse_config_dict(d)
                res["hand_yaml"].append({"n": n, "equal": a == b and repr(a) == repr(b)})
            except Exception as e:
                res["hand_yaml"].append({"n": n, "equal": False, "error": repr(e)})
    json.dump(res, open(argv[3], "w"))
    return 0


# --------------------------------------------------------------------------------------------------
# driver side


def serial_env():
    """numba's on-disk cache is shared between the serial and the threaded flavour of the kernel (see C14): a cache
    directory that a NUM_THREADS > 1 process has written hands threaded code to everybody.  C13 only ever runs serial
    solves, so it keeps a cache directory of its own and pins numba to one thread."""
    return {"NUMBA_CACHE_DIR": os.path.join(core.VERIF, "build", "numba_cache_serial"), "NUMBA_NUM_THREADS": "1"}


def run_jobs(ctx, cases, tag, parse_reps=1, nproc=8):
    from concurrent.futures import ThreadPoolExecutor

    shards = [cases[k::nproc] for k in range(nproc)]
    shards = [s for s in shards if s]

    def one(k):
        d = os.path.join(ctx.build, "%s_job%d" % (tag, k))
        os.makedirs(d, exist_ok=True)
        spec = {"seed": ctx.seed * 7919 + k, "cases": shards[k], "parse_reps": parse_reps, "hand_yaml": k == 0}
        json.dump(spec, open(os.path.join(d, "in.json"), "w"))
        rc, out, err, dt = core.run([core.PY, os.path.abspath(__file__), "job", os.path.join(d, "in.json"),
                                     os.path.join(d, "out.json")], timeout=1500, cwd=d, env=core.pyenv(serial_env()))
        if rc != 0 or not os.path.exists(os.path.join(d, "out.json")):
            raise core.CheckFailure("C13 implementation job %d failed (rc=%s): %s" % (k, rc, (out + err)[-1500:]))
        return json.load(open(os.path.join(d, "out.json")))

    merged = {"plumb": [], "parse": [], "hand_yaml": [], "defaults_def": set(), "defaults_consistent": True}
    with ThreadPoolExecutor(max_workers=nproc) as ex:
        for r in ex.map(one, range(len(shards))):
            for k in ("plumb", "parse", "hand_yaml"):
                merged[k] += r[k]
            merged["defaults_def"].add(r["defaults_def"])
            merged["defaults_consistent"] = merged["defaults_consistent"] and r["defaults_consistent"]
    return merged


HEADER = ("From Coq Require Import List ZArith Bool String.\nFrom BL Require Import Model.Met Model.MetExec "
          "Model.Interface Model.InterfaceExec.\nImport ListNotations.\nOpen Scope Z_scope.\n")


def eval_terms(ctx, prefix, terms, batch=25, extra_header=""):
    """terms: list of (id, bool term); returns set of ids whose term is not true, plus error text"""
    goals = []
    for b in range(0, len(terms), batch):
        items = "; ".join("(%d, %s)" % (j, t) for j, (_, t) in enumerate(terms[b:b + batch]))
        goals.append(("b%d" % b, "map fst (filter (fun p => negb (snd p)) [%s])" % items))
    res = core.coq_eval_sharded(ctx, prefix, HEADER + extra_header, goals, shard=6, timeout=900, jobs=12)
    bad, err = [], res.get("__error__")
    for b in range(0, len(terms), batch):
        r = res.get("b%d" % b)
        if r is None:
            bad += [terms[j][0] for j in range(b, min(b + batch, len(terms)))]
            err = (err or "") + " missing batch %d" % b
            continue
        idx = [int(x) for x in r.replace("%Z", "").strip("[]() ").split(";") if x.strip()] if r.strip("[] ") else []
        bad += [terms[b + j][0] for j in idx]
    return bad, err


def check(ctx):
    core.check_properties_file(ctx, "Properties/C13.v", THEOREMS, core.AX_NONE)
    core.check_properties_file(ctx, "Properties/C13Ideal.v", THEOREMS_IDEAL, core.AX_REALS)
    # tie (B): descriptions of run_bldfm_single / the parser re-extracted from core.SRC, bridge lemmas for ALL arguments
    import py2coq_interface
    py2coq_interface.bridge(ctx)
    # tie (B) for the configured surface flux: utils.ideal_source, whole function -> Gen/GenIdeal.v, Bridge/IdealBridge.v
    import idealslices
    idealslices.run(ctx)
    n_random = 2500 if ctx.thorough else 330
    cases, pairs_seen, pairs_all = gen_cases(ctx.rng, n_random, full_product=ctx.thorough)
    for j, c in enumerate(cases):
        c["id"] = j
    res = run_jobs(ctx, cases, "impl", parse_reps=2 if ctx.thorough else 1, nproc=14 if ctx.thorough else 10)
    by_id = {c["id"]: c for c in cases}
    terms, meta = [], {}
    n_tuples = n_equal = n_raise = n_oob = 0
    hist = {}
    for blk in res["plumb"]:
        case = by_id[blk["case"]]
        if "error" in blk:
            ctx.fail("correspondence", "C13:case-%d:crash" % blk["case"], blk["error"], hint={"raw": case["raw"], "case": case})
            continue
        for rec in blk["records"]:
            n_tuples += 1
            tid = "c%d_t%d_i%d" % (blk["case"], rec["k"], rec["i"])
            terms.append((tid, rec["term"]))
            meta[tid] = (case, rec)
            hint = {"raw": case["raw"], "k": rec["k"], "i": rec["i"], "flux_seed": case["flux_seed"], "cache": case["cache"]}
            if rec["diff"]:
                ctx.fail("correspondence", "C13:result:" + tid, "run_bldfm_single differs from the by-hand pipeline: %s" % rec["diff"], hint=hint)
            elif rec["labels"]:
                ctx.fail("correspondence", "C13:labels:" + tid, "labels differ from the by-hand ones: %s" % rec["labels"], hint=hint)
            else:
                n_equal += 1
            if rec["kind"] != "ok":
                n_raise += 1
            if rec["i"] >= case["n"]:
                n_oob += 1
            hist[rec["kind"]] = hist.get(rec["kind"], 0) + 1
    bad, err = eval_terms(ctx, "c13plumb", terms)
    if err:
        ctx.fail("correspondence", "C13:coq-eval", err)
    for tid in bad[:25]:
        case, rec = meta[tid]
        ctx.fail("correspondence", "C13:plumb:" + tid,
                 "recorded calls differ from plumb_c: observed encoding %s (opts %s)" % (rec["obs"], case["opts"]),
                 hint={"raw": case["raw"], "k": rec["k"], "i": rec["i"], "flux_seed": case["flux_seed"], "cache": case["cache"]})
    # parser
    pterms, pmeta = [], {}
    n_yaml_ok = 0
    phist = {}
    for j, rec in enumerate(res["parse"]):
        if "error" in rec:
            ctx.fail("correspondence", "C13:parse-%d:crash" % j, rec["error"], hint={"raw": rec["raw"], "parse": True})
            continue
        pid = "p%d" % j
        pterms.append((pid, rec["term"]))
        pmeta[pid] = rec
        key = rec["kind"] + "/" + rec["outcome"]
        phist[key] = phist.get(key, 0) + 1
        if rec["yaml_equal"]:
            n_yaml_ok += 1
        else:
            ctx.fail("correspondence", "C13:yaml:" + pid, "load_config(file) %s vs parse_config_dict(dict) %s give different configurations" % (rec["yaml_outcome"], rec["outcome"]),
                     hint={"raw": rec["raw"], "parse": True})
    for h in res["hand_yaml"]:
        if not h["equal"]:
            ctx.fail("correspondence", "C13:yaml:hand-%d" % h["n"], "hand-written YAML text and its dictionary differ: %s" % h.get("error", ""),
                     hint={"hand_yaml": h["n"]})
    if len(res["defaults_def"]) != 1 or not res["defaults_consistent"]:
        ctx.fail("correspondence", "C13:defaults-inconsistent", "the defaults of an omitted section (dataclass) and of an omitted key (d.get literal) differ; the parser model has one default per key: %r" % sorted(res["defaults_def"]))
    pbad, perr = eval_terms(ctx, "c13parse", pterms, extra_header=sorted(res["defaults_def"])[0])
    if perr:
        ctx.fail("correspondence", "C13:coq-eval-parse", perr)
    for pid in pbad[:25]:
        ctx.fail("correspondence", "C13:parse:" + pid, "parse_config_dict differs from the parser model on %r (%s)" % (pmeta[pid]["raw"], pmeta[pid]["outcome"]),
                 hint={"raw": pmeta[pid]["raw"], "parse": True})
    dimhist = {k: {} for k in DIMS}
    for c in cases:
        for k in DIMS:
            dimhist[k][str(c["opts"][k])] = dimhist[k].get(str(c["opts"][k]), 0) + 1
    ctx.cov.update({
        "evaluations": n_tuples + len(pterms),
        "distinct_nontrivial": sum(1 for tid, (case, rec) in meta.items() if rec["kind"] == "ok" and
                                   (case["n"] > 1 or case["opts"]["towers"] > 1 or case["opts"]["levels"] != "default")),
        "rule": "configurations drawn from the product of %s; %s; pairwise coverage of all option values completed greedily and MEASURED (%d of %d value pairs); every tower x every time index of each configuration plus one index past the end; non-trivial = the run succeeded and the configuration has several steps or several towers or a non-default level option. Parser: one%s mutated dictionary per configuration (omitted keys, omitted/null sections, missing mandatory parts, invalid met) through parse_config_dict, the parser model, and a YAML file" % (
            ", ".join("%s%s" % (k, v if k != "grid" else "") for k, v in DIMS.items()),
            "full product of closure x precision x footprint x analytic x halo x modes x levels x forcing x series plus %d random" % n_random if ctx.thorough else "%d random" % n_random,
            pairs_seen, pairs_all, " (two)" if ctx.thorough else ""),
        "samples": [{"opts": meta[t][0]["opts"], "tower": meta[t][1]["k"], "index": meta[t][1]["i"], "outcome": meta[t][1]["kind"],
                     "observed_encoding": meta[t][1]["obs"]} for t in list(meta)[3::max(1, len(meta) // 5)]][:6],
        "configurations": len(cases),
        "plumb_tuples": n_tuples,
        "plumb_mismatches": len(bad),
        "result_bit_equal": n_equal,
        "raising_runs_compared_by_outcome": n_raise,
        "index_past_end": n_oob,
        "parse_cases": len(pterms),
        "parse_mismatches": len(pbad),
        "yaml_vs_dict_equal": n_yaml_ok,
        "hand_written_yaml": len(res["hand_yaml"]),
        "histogram": {"outcome": hist, "parse": phist, "options": dimhist},
        "pair_coverage": [pairs_seen, pairs_all],
    })
    # tie (A) for utils.ideal_source: exact 0/1 patterns against the rational twin, interval-certified Gaussian cells
    import idealcorr
    idealcorr.check(ctx)


# --------------------------------------------------------------------------------------------------
# oracle: the property itself on the real code


def classify(impl, raw, cfg, k, i, flux):
    """which ingredient of the pipeline differs (for a stable signature): compare the recorded arguments with the by-hand ones"""
    import numpy as np

    cp, itf, mods = impl
    rec_hand = []

    def spy(n, f):
        def w(*a, **kw):
            import inspect

            ba = inspect.signature(f).bind(*a, **kw)
            ba.apply_defaults()
            rec_hand.append((n, dict(ba.arguments)))
            return f(*a, **kw)
        return w

    spied = tuple(spy(n, f) for n, f in zip(Recorders.NAMES, mods))
    try:
        by_hand(spied, raw, cfg, k, i, flux)
    except Exception:
        pass
    with Recorders(itf) as R:
        try:
            itf.run_bldfm_single(cfg, cfg.towers[k], met_index=i, surface_flux=flux)
        except Exception:
            pass
    hand = {n: a for n, a in rec_hand}
    short = {"compute_wind_fields": "wind", "vertical_profiles": "profiles", "ideal_source": "source", "steady_state_transport_solver": "solver"}
    for n in Recorders.NAMES:
        got = R.of(n)
        if (n in hand) != bool(got):
            return "plumb:%s:call-count" % short[n]
        if not got:
            continue
        for a, hv in hand[n].items():
            gv = got[0]["args"].get(a)
            if a in ("z", "profiles", "srf_flx", "wind"):
                try:
                    same = all(same_bits(x, y) for x, y in zip(np.atleast_1d(np.asarray(gv, dtype=object)) if a == "profiles" else [gv],
                                                               np.atleast_1d(np.asarray(hv, dtype=object)) if a == "profiles" else [hv]))
                    if a in ("profiles", "wind"):
                        same = len(gv) == len(hv) and all(same_bits(x, y) for x, y in zip(gv, hv))
                except Exception:
                    same = False
            elif isinstance(hv, (list, tuple)):
                same = isinstance(gv, (list, tuple)) and len(gv) == len(hv) and all(vkey(x) == vkey(y) for x, y in zip(gv, hv))
            elif hv is None or gv is None:
                same = hv is None and gv is None
            else:
                same = vkey(gv) == vkey(hv)
            if not same:
                if n == "vertical_profiles" and a in ("ustar", "z0"):
                    return "plumb:z0-precedence" if raw["met"].get("z0") is not None and raw["met"].get("ustar") is not None else "plumb:profiles:" + a
                if n == "steady_state_transport_solver" and a in ("z", "profiles"):
                    continue  # consequence of an earlier difference
                return "plumb:%s" % a if n == "steady_state_transport_solver" else "plumb:%s:%s" % (short[n], a)
    return "result:arrays-differ"


def oracle_one(impl, raw, k, i, flux_seed):
    import numpy as np

    cp, itf, mods = impl
    cfg = cp.parse_config_dict(json.loads(json.dumps(raw)))
    flux = None
    if flux_seed is not None:
        d = raw["domain"]
        flux = np.random.default_rng(flux_seed).random((d["ny"], d["nx"]))
    kind, res = outcome(lambda: itf.run_bldfm_single(cfg, cfg.towers[k], met_index=i, surface_flux=flux))
    hkind, hres = outcome(lambda: by_hand(mods, raw, cfg, k, i, flux))
    if kind != "ok" or hkind != "ok":
        if kind == hkind or (kind == "raise:IndexError" and hkind in ("raise:IndexError", "raise:TypeError")):
            return None
        return ("outcome:" + ("single-raises" if kind != "ok" else "by-hand-raises"), "run_bldfm_single: %s, by-hand pipeline: %s" % (kind, hkind))
    diff = compare_results(res, hres[0])
    if diff:
        return (classify(impl, raw, cfg, k, i, flux), "arrays differ from the by-hand pipeline: %s" % diff)
    lab = labels_equal(res, hres[1])
    if lab:
        return ("labels:" + lab[0], "labels differ: %s (got %r)" % (lab, {q: res.get(q) for q in lab}))
    return None


def oracle_yaml(impl, raw, tmpdir):
    import yaml

    cp = impl[0]
    p = os.path.join(tmpdir, "oracle.yaml")
    with open(p, "w") as f:
        yaml.safe_dump(raw, f)

    def run(fn):
        try:
            return fn()
        except Exception as e:
            return "raise:" + type(e).__name__
    a, b = run(lambda: cp.load_config(p)), run(lambda: cp.parse_config_dict(json.loads(json.dumps(raw))))
    if a != b or repr(a) != repr(b):
        return ("yaml-vs-dict", "load_config(file) = %r but parse_config_dict(dict) = %r" % (a, b))
    if not isinstance(a, str):
        scribble_config(a)
        a2 = run(lambda: cp.load_config(p))
        if a2 is a or a2 != b or repr(a2) != repr(b):
            return ("yaml-reload-after-edit", "load_config(file), the caller edits the returned object (met.wind_dir, met.ustar, solver.footprint, domain.halo, ...), load_config(file) again on the unchanged file = %r but parse_config_dict(dict) = %r" % (a2, b))
    return None


def size_of(raw):
    return len(json.dumps(raw))


def oracle(ctx, hints):
    os.environ.update(serial_env())
    impl = load_impl()
    found = {}

    def note(sig, what, replay, size):
        if sig not in found or size < found[sig][0]:
            found[sig] = (size, what, replay)

    tmpdir = tempfile.mkdtemp(prefix="c13oracle_", dir=os.getcwd())
    pool = []
    for h in hints:
        if not h or "raw" not in h:
            continue
        if h.get("parse"):
            r = oracle_yaml(impl, h["raw"], tmpdir)
            if r:
                note(r[0], r[1], {"raw": h["raw"], "yaml": True}, size_of(h["raw"]))
            # a dictionary the parser model disagrees on is also run: what the parser filled in (tower x, y,
            # defaults) is what the single run uses, the by-hand pipeline works from the raw numbers
            pool.append((h["raw"], 0, 0, None))
            continue
        pool.append((h["raw"], h.get("k", 0), h.get("i", 0), h.get("flux_seed")))
    rng = random.Random(ctx.seed + 13)
    cases, _, _ = gen_cases(rng, 120 if not ctx.thorough else 500)
    for c in cases:
        for (k, i) in c["tuples"]:
            pool.append((c["raw"], k, i, c["flux_seed"]))
    for n, (raw, k, i, fs) in enumerate(pool):
        try:
            r = oracle_one(impl, raw, k, i, fs)
        except Exception as e:
            r = ("oracle:exception", repr(e))
        if r:
            note(r[0], "run_bldfm_single(config, tower %d, met_index=%d%s): %s" % (k, i, ", surface_flux=<array>" if fs is not None else "", r[1]),
                 {"raw": raw, "k": k, "i": i, "flux_seed": fs}, size_of(raw))
        if n % 7 == 0:
            y = oracle_yaml(impl, raw, tmpdir)
            if y:
                note(y[0], y[1], {"raw": raw, "yaml": True}, size_of(raw))
    import idealcorr
    extra = idealcorr.oracle(ctx, hints)   # the surface-flux helper against its documented field (exact rationals)
    return [{"signature": sig, "what": what, "replay": rp} for sig, (size, what, rp) in found.items()] + extra


def replay(body):
    if "ideal" in body:
        import idealcorr
        return idealcorr.replay(body)
    os.environ.update(serial_env())
    impl = load_impl()
    if body.get("yaml"):
        r = oracle_yaml(impl, body["raw"], tempfile.mkdtemp(prefix="c13replay_"))
    elif "raw" in body:
        r = oracle_one(impl, body["raw"], body.get("k", 0), body.get("i", 0), body.get("flux_seed"))
    else:
        print(json.dumps(body, indent=1)[:3000])
        return 0
    print("config   =", json.dumps(body["raw"]))
    print("tower    =", body.get("k"), " met_index =", body.get("i"), " user flux:", body.get("flux_seed") is not None)
    print("measured =", r)
    print("FAILS" if r else "holds")
    return 1 if r else 0


if __name__ == "__main__":
    if len(sys.argv) >= 4 and sys.argv[1] == "job":
        sys.exit(job_main(sys.argv))
