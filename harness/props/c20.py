"""C20 — source-area rescaling and percentile contours.

check():  Print Assumptions of the theorems in Properties/C20.v, then an EXACT correspondence between
          bldfm.utils.get_source_area / source_area_* / bldfm.plotting.footprint.extract_percentile_contour
          and Model/SourceArea.v evaluated over Q by vm_compute.  Footprint values, coordinates, cell
          sizes and fractions are dyadic with few bits, so every float sum/product the code forms is
          exact and equality is the criterion.  numpy's argsort is not modelled: the concrete order
          `np.argsort(x.ravel())[::-1]` is passed to the model as data and Coq checks that it is a
          permutation sorting x non-increasingly (the only thing the theorems assume of it).  A value
          mismatch is re-tried once under the order reconstructed from the result itself (so that a
          refactoring that merely orders ties in g differently raises no alarm; Coq checks that order too).
          BASE FUNCTIONS (Model/SourceAreaBase.v over R, theorems in Properties/C20Base.v): (B) the five return
          expressions are re-extracted from utils.py by harness/sabaseslices.py (fail closed on anything but
          straight-line code) and Bridge/SABaseBridge.v re-proves gen = model for all arguments; (A) every element of
          the arrays returned by source_area_circular/upwind/crosswind/sector on generated inputs (axis-aligned and
          oblique winds, cells on the axis / behind the tower / at the tower / exactly across, large and small
          magnitudes, integer arrays, 1-D / 2-D / broadcast arrays, scalars) is a kernel-checked lemma
          |model(exact rationals of the inputs) - python| <= 1e-12 * scale closed by `interval`;
          source_area_contribution is compared bit for bit and checked not to alias its argument.
oracle(): the property's own statement, brute force O(n^2) in exact integer arithmetic on the real code,
          independent of the Coq model; for the base functions their four semantic statements (minus squared
          distance / along-wind projection / minus squared distance to the wind axis / minus angle to the upwind
          direction) with independent float formulas.
"""
import hashlib
import math
import os
import re
import sys
from fractions import Fraction

import core
import rcorr
import sabaseslices
import py2coq_sa

os.environ.setdefault("MPLBACKEND", "Agg")
os.environ.setdefault("NUMBA_CACHE_DIR", os.path.join(core.VERIF, "build", "numba_cache"))

THEOREMS = [
    "C20_shape", "C20_rescaled_bounds", "C20_rescaled_exact", "C20_range", "C20_antitone",
    "C20_monotone_transform_invariant", "C20_permutation_equivariant",
    "C20_percentile_least", "C20_percentile_fewest", "C20_percentile_monotone", "C20_scaling",
    "C20_order_check_sound", "C20_binary_search",
    "C20_reversed_argsort_order", "C20_empty_like_contents_irrelevant",
]
THEOREMS_BASE = [  # Properties/C20Base.v (over R, stdlib real axioms only); each is the conjunction of the clauses about one function
    "C20_contribution_identity",
    "C20_circular_is_minus_dist2",   # formula; nearer <-> larger; super-level sets are discs; rotation about the tower
    "C20_upwind_is_projection",      # formula; positive scaling; reversal; = g of the projected cell; perpendicular shifts
    "C20_crosswind_is_minus_perp2",  # -(dist to the foot)^2; foot is nearest; Pythagoras; reversal / non-zero scaling; mirror
    "C20_sector_is_minus_angle",     # cos; -acos; closed form -|atan2(cross,dot)|; 0 iff on the upwind ray; cones; mirror
    "C20_sector_all_inputs",         # range [-pi, 0]; positive scaling of wind / displacement; value at the tower
]
TRUSTED = [
    "Model/SourceArea.v is hand-written; tied to utils.get_source_area, the source_area_* base functions and plotting.footprint.extract_percentile_contour (+ _maybe_slice_level) by exact differential execution on dyadic inputs",
    "np.argsort is not modelled: its output enters as data; Coq re-checks on every case that it is a permutation sorting the field non-increasingly (C20_order_check_sound)",
    "np.searchsorted (binary search) is modelled by searchsorted_left_bin and proved equal to the linear specification on cumulative sums of non-negative fields (C20_binary_search); both are compared with the code",
    "array part, tie (B): harness/py2coq_sa.py transliterates the CURRENT bodies of utils.get_source_area, plotting._common._maybe_slice_level and plotting.footprint.extract_percentile_contour statement by statement into the array-program language of Model/SADesc.v (fail closed outside the fragment; alias analysis so that value semantics is faithful); Bridge/SABridge.v re-proves on every run, for ALL arrays / dtype kinds / shapes / any ascending-sorting argsort / any contents of np.empty_like, that the interpreted programs equal Model/SourceArea.get_source_area, slice_level and extract_percentile_contour, and that the parameter lists and defaults are the expected ones",
    "the MEANING of the numpy primitives is the interpreter of Model/SADesc.v (hand-written, exercised by the exact correspondence, not proved against numpy): an ndarray is dtype kind + shape + C-ordered buffer; ravel()/reshape change the shape only; x[i] cuts the i-th block of the first axis, negative indices wrap; x[order] = gather, x[order] = v / x[lo:hi] = v store with a cast to x's dtype kind (integer truncates) and exact length agreement; np.cumsum = running sums of the raveled buffer in the same dtype kind; np.zeros_like / np.empty_like keep dtype kind and shape (empty_like: arbitrary contents); np.searchsorted(a, v) = side-left linear specification; np.abs, +, -, * elementwise with scalar broadcasting; min / len / float as in Python; dtype WIDTHS (float32/float64), the dtype of scalars and IEEE rounding are not represented",
    "Model/SourceAreaBase.v (base functions over Coq's R, one grid cell at a time) is hand-written; tied to utils.source_area_contribution/circular/upwind/crosswind/sector by (B) five bridge lemmas against the return expressions re-extracted from the current source (harness/sabaseslices.py: straight-line code only, tuple parameters unpacked in order, everything else fails closed) and (A) interval-certified evaluation of the real model at the exact rational value of every input, element by element",
    "np.sqrt = sqrt, np.sin/np.cos = sin/cos, np.abs = Rabs, np.arctan2 = the model's atan2 (Model/KM.v: principal value in (-pi, pi], arctan2(0,0) = 0); libm/numpy are not modelled, their rounding is inside the correspondence tolerance; numpy broadcasting of X against Y is elementwise (shape and every element checked)",
    "the `interval` tactic is used ONLY by the per-element correspondence goals (each closed by Qed); no theorem of Properties/C20Base.v uses a numerical tactic.  For the sector function the goal is first rewritten with the proved closed form -|atan2(cross, dot)| in the quadrant decided by exact rational arithmetic on the case's inputs (side conditions closed by lra)",
    "source_area_contribution = flx.copy(): modelled as the identity; the copy itself (fresh buffer, same dtype/shape/bytes) is checked on the real function, not proved",
]
ASSUMPTIONS = [
    "theorems are over exact rationals: IEEE rounding of cumsum / cell_area products is not covered by any theorem (the correspondence uses inputs on which the float operations are exact)",
    "order/idx is any permutation of the cells sorting the field non-increasingly (hypothesis sorts_desc); no stability or tie-breaking rule of np.argsort is assumed",
    "bridge lemmas (array part) assume: argsort returns a permutation of the cells that sorts non-decreasingly (argsort_ok; then its reverse satisfies sorts_desc: C20_reversed_argsort_order); f and g have equally many elements and g's shape matches its buffer; for the percentile code the nested arrays are rectangular, the level exists in every array that is cut (level_ok) and the coordinate arrays have the two entries the cell size is read from (grid_ok_x / grid_ok_y) - outside these Python raises IndexError / ValueError and the model is not claimed",
    "f non-negative, p in [0,1], cell area > 0, field non-empty, f and g of equal size (as in the property's quantifier)",
    "base functions: theorems are in exact real arithmetic; IEEE rounding is bounded per evaluated element only: |model - python| <= 1e-12*scale + 1e-60 with scale = (|x-xm|+|y-ym|)^2 for circular and crosswind, |x-xm|+|y-ym| for upwind, 1 (radian) for sector",
    "base functions, degenerate inputs: wind = (0,0) is outside the hypotheses of the upwind/crosswind/sector-angle theorems (0 < u*u+v*v); Python divides by speed = 0.0 there (numpy scalar division: NaN everywhere, RuntimeWarning) and the sector function returns finite values that depend on the signs of the float zeros (arctan2(-0.0,-0.0) = -pi); the observed behaviour is recorded in the evidence (base_degenerate), not judged.  cell = tower in the sector function: numpy's arctan2(0,0) = 0 = the model's atan2 0 0, the value is -|direction angle of the upwind vector| (C20_sector_at_tower), covered by the correspondence",
    "base functions, signed zeros: for v = 0.0 and u > 0 Python evaluates arctan2(-0.0, -u) = -pi where the real atan2 gives +pi; the re-wrapping through sin/cos removes the 2 pi, so the returned value agrees with the model within the tolerance (such winds are generated)",
    "the model describes get_source_area with the result allocated in the dtype of the cumulative sums (fix_C20.diff); on the unrepaired tree an integer-dtype g truncates the result and the check reports it",
]

SIG_TRUNC = "get_source_area:integer-g-dtype-truncation"
_IMPL = None


def _impl():
    global _IMPL
    if _IMPL is None:
        if core.SRC not in sys.path:
            sys.path.insert(0, core.SRC)
        import numpy as np
        import bldfm.utils as U
        from bldfm.plotting.footprint import extract_percentile_contour

        _IMPL = (np, U, extract_percentile_contour)
    return _IMPL


# ---------------------------------------------------------------------------------------------
# exact helpers


def fracs(arr):
    np = _impl()[0]
    a = np.asarray(arr).ravel()
    if a.dtype.kind in "iub":
        return [Fraction(int(v)) for v in a]
    return [Fraction(float(v)) for v in a]


def q_list(vals):
    """Coq literal `dy d [n1; ...]%Z` for a list of Fractions (common denominator)."""
    d = 1
    for v in vals:
        if v.denominator > d:
            d = d * v.denominator // _gcd(d, v.denominator)
    nums = [v.numerator * (d // v.denominator) for v in vals]
    return "(dy %d%%positive [%s]%%Z)" % (d, "; ".join(str(n) if n >= 0 else "(%d)" % n for n in nums))


def _gcd(a, b):
    while b:
        a, b = b, a % b
    return a


def q_lit(v):
    v = Fraction(v)
    return "(%d # %d)" % (v.numerator, v.denominator) if v.numerator >= 0 else "(-(%d) # %d)" % (-v.numerator, v.denominator)


def ix_list(idx):
    return "(ix [%s]%%Z)" % "; ".join(str(int(i)) for i in idx)


def arr_lit(a):
    np = _impl()[0]
    a = np.asarray(a)
    if a.ndim == 1:
        return "(A1 %s)" % q_list(fracs(a))
    if a.ndim == 2:
        return "(A2 [%s])" % "; ".join(q_list(fracs(r)) for r in a)
    if a.ndim == 3:
        return "(A3 [%s])" % "; ".join("[%s]" % "; ".join(q_list(fracs(r)) for r in lev) for lev in a)
    raise ValueError("ndim")


def all_finite(a):
    np = _impl()[0]
    a = np.asarray(a)
    return a.dtype.kind in "iub" or bool(np.all(np.isfinite(a)))


# ---------------------------------------------------------------------------------------------
# generators (everything from a numpy Generator seeded by ctx.rng)

F_KINDS = ["random", "random", "sparse", "tied", "zeros", "single", "plume", "tied_zero_tail", "int_counts"]
G_KINDS = ["contribution", "circular", "upwind_axis", "crosswind_axis", "upwind_oblique", "crosswind_oblique",
           "sector", "random_dyadic_ties", "random_float", "const", "neg_f", "int_class", "circular_int", "upwind_int"]


def gen_shape(rs, thorough, three_d):
    if three_d:
        return (int(rs.integers(1, 4)), int(rs.integers(1, 6)), int(rs.integers(1, 7)))
    big = thorough and rs.random() < 0.1
    hi = 21 if big else 10
    return (int(rs.integers(1, hi)), int(rs.integers(1, hi + 2)))


def gen_f(rs, kind, shape):
    """dyadic non-negative field: integers k < 2^10 over 2^m, m <= 10"""
    np = _impl()[0]
    n = int(np.prod(shape))
    m = int(rs.integers(0, 11))
    if kind == "random":
        k = rs.integers(0, 1024, size=n)
    elif kind == "sparse":
        k = rs.integers(1, 1024, size=n) * (rs.random(n) < 0.2)
    elif kind == "tied":
        vals = rs.integers(0, 64, size=int(rs.integers(1, 4)))
        k = rs.choice(vals, size=n)
    elif kind == "zeros":
        k = np.zeros(n, dtype=int)
    elif kind == "single":
        k = np.zeros(n, dtype=int)
        k[int(rs.integers(0, n))] = int(rs.integers(1, 1024))
    elif kind == "plume":
        idx = np.indices(shape).reshape(len(shape), -1).astype(float)
        c = np.array([rs.uniform(0, s) for s in shape])[:, None]
        w = rs.uniform(0.7, 3.0)
        k = np.floor(1023 * np.exp(-((idx - c) ** 2).sum(0) / (2 * w * w))).astype(int)
    elif kind == "tied_zero_tail":
        k = rs.choice([0, 0, 5, 5, 9], size=n)
    elif kind == "int_counts":
        k = rs.integers(0, 50, size=n)
        return k.reshape(shape).astype(np.int64), 0
    else:
        raise ValueError(kind)
    f = (np.asarray(k, dtype=float) / float(2 ** m)).reshape(shape)
    return f, m


def gen_coords(rs, shape, integer=False):
    """dyadic coordinate grids of the same shape as the field (2-D meshgrid or 3-D broadcast)"""
    np = _impl()[0]
    ny, nx = shape[-2], shape[-1]
    if integer:
        x = np.arange(nx) * int(rs.integers(1, 4)) + int(rs.integers(-5, 6))
        y = np.arange(ny) * int(rs.integers(1, 4)) + int(rs.integers(-5, 6))
    else:
        dx = int(rs.integers(1, 33)) / 8.0 * (1 if rs.random() < 0.85 else -1)
        dy = int(rs.integers(1, 33)) / 8.0 * (1 if rs.random() < 0.85 else -1)
        x = int(rs.integers(-40, 41)) / 8.0 + dx * np.arange(nx)
        y = int(rs.integers(-40, 41)) / 8.0 + dy * np.arange(ny)
    X, Y = np.meshgrid(x, y)
    if len(shape) == 3:
        X = np.broadcast_to(X, shape).copy()
        Y = np.broadcast_to(Y, shape).copy()
    return x, y, X, Y


def gen_g(rs, kind, f, shape):
    """returns (g, info) ; info carries what is needed to compare a base function exactly"""
    np, U, _ = _impl()
    n = int(np.prod(shape))
    info = {"base": None}
    if kind == "contribution":
        g = U.source_area_contribution(f)
        info = {"base": "contribution"}
    elif kind in ("circular", "circular_int"):
        x, y, X, Y = gen_coords(rs, shape, integer=(kind == "circular_int"))
        if kind == "circular_int":
            mp = (int(rs.integers(-3, 8)), int(rs.integers(-3, 8)))
        else:
            mp = (int(rs.integers(-64, 65)) / 16.0, int(rs.integers(-64, 65)) / 16.0)
        g = U.source_area_circular(X, Y, mp)
        info = {"base": "circular", "X": X, "Y": Y, "mp": mp}
    elif kind in ("upwind_axis", "crosswind_axis", "upwind_int"):
        x, y, X, Y = gen_coords(rs, shape, integer=(kind == "upwind_int"))
        mp = (int(rs.integers(-64, 65)) / 16.0, int(rs.integers(-64, 65)) / 16.0)
        s = int(rs.integers(1, 40)) / 4.0
        wind = [(s, 0.0), (-s, 0.0), (0.0, s), (0.0, -s)][int(rs.integers(0, 4))]
        fn = U.source_area_crosswind if kind == "crosswind_axis" else U.source_area_upwind
        g = fn(X, Y, mp, wind)
        info = {"base": "crosswind" if kind == "crosswind_axis" else "upwind", "X": X, "Y": Y, "mp": mp, "wind": wind}
    elif kind in ("upwind_oblique", "crosswind_oblique", "sector"):
        x, y, X, Y = gen_coords(rs, shape)
        mp = (float(rs.uniform(-5, 5)), float(rs.uniform(-5, 5)))
        wind = (float(rs.normal(0, 3)), float(rs.normal(0, 3)))
        if wind == (0.0, 0.0):
            wind = (1.0, 2.0)
        fn = {"upwind_oblique": U.source_area_upwind, "crosswind_oblique": U.source_area_crosswind,
              "sector": U.source_area_sector}[kind]
        g = fn(X, Y, mp, wind)
    elif kind == "random_dyadic_ties":
        g = (rs.integers(-6, 7, size=n) / 4.0).reshape(shape)
    elif kind == "random_float":
        g = rs.normal(size=n).reshape(shape)
    elif kind == "const":
        g = np.full(shape, float(rs.integers(-3, 4)))
    elif kind == "neg_f":
        g = -np.asarray(f, dtype=float)
    elif kind == "int_class":
        g = rs.integers(0, 5, size=n).reshape(shape).astype(np.int64)
    else:
        raise ValueError(kind)
    return g, info


def gen_gsa_case(rs, thorough, fk=None, gk=None, three_d=None):
    np = _impl()[0]
    fk = fk or F_KINDS[int(rs.integers(0, len(F_KINDS)))]
    gk = gk or G_KINDS[int(rs.integers(0, len(G_KINDS)))]
    if three_d is None:
        three_d = rs.random() < 0.25
    shape = gen_shape(rs, thorough, three_d)
    f, m = gen_f(rs, fk, shape)
    g, info = gen_g(rs, gk, f, shape)
    # memory layout must not matter: Fortran-ordered arrays / transposed views carry the same cells
    lay = ["CC", "CC", "FC", "CF", "FF"][int(rs.integers(0, 5))]
    if lay[0] == "F":
        f = np.asfortranarray(f)
    if lay[1] == "F":
        g = np.asfortranarray(g)
    return {"kind": "gsa", "fk": fk, "gk": gk, "f": f, "g": g, "info": info, "layout": lay}


def gen_pct_case(rs, thorough, fk=None):
    np = _impl()[0]
    fk = fk or [k for k in F_KINDS if k != "int_counts"][int(rs.integers(0, len(F_KINDS) - 1))]
    three_d = rs.random() < 0.35
    shape = gen_shape(rs, thorough, three_d)
    if shape[-1] < 2 or shape[-2] < 2:  # the code reads X[0,1] and Y[1,0]
        shape = shape[:-2] + (max(2, shape[-2]), max(2, shape[-1]))
    f, m = gen_f(rs, fk, shape)
    x, y, X, Y = gen_coords(rs, shape)
    level = int(rs.integers(0, shape[0])) if three_d else 0
    if three_d:
        gridkind = ["3d", "2d", "1d"][int(rs.integers(0, 3))]
    else:
        gridkind = ["2d", "1d"][int(rs.integers(0, 2))]
    if gridkind == "3d":
        # make the coordinates differ from level to level so that slicing the grid matters
        scale = (1 + np.arange(shape[0]))[:, None, None].astype(float)
        X = X * scale
        Y = Y * scale
        grid = (X, Y, np.zeros(shape))
    elif gridkind == "2d":
        X2, Y2 = np.meshgrid(x, y)
        grid = (X2, Y2, np.zeros(1))
    else:
        grid = (x, y, np.zeros(1))
    r = rs.random()
    if r < 0.15:
        pct = 1.0
    elif r < 0.25:
        pct = 1 / 64.0
    else:
        pct = int(rs.integers(1, 65)) / 64.0
    return {"kind": "pct", "fk": fk, "flx": f, "grid": grid, "gridkind": gridkind, "level": level, "pct": pct}


# ---------------------------------------------------------------------------------------------
# running the implementation


# Work buffers re-used across calls: a script that analyses one field after another in the same array (`buf[...] = next`,
# `f *= 4`, a running mean) hands the SAME memory with OTHER contents to consecutive calls.  C-contiguous inputs are
# therefore copied into one persistent buffer per (role, shape, dtype) before the call; the previous contents travel with
# the case (hint / replay), and the buffer is compared with the input afterwards (the functions must not edit their inputs).
_BUF = {}


def _via_buffer(role, a, case, tag):
    np = _impl()[0]
    a = np.asarray(a)
    if not (a.flags["C_CONTIGUOUS"] and a.ndim >= 1 and a.size > 0 and not case.get("_no_buffer")):
        return a, None
    key = (role, a.shape, a.dtype.str)
    buf = _BUF.get(key)
    if buf is None:
        buf = _BUF[key] = np.empty(a.shape, dtype=a.dtype)
        prev = None
    else:
        prev = buf.copy()
    if case.get("_previous_" + tag) is not None:
        prev = np.array(case["_previous_" + tag], dtype=a.dtype).reshape(a.shape)
        buf[...] = prev
    case["_prev_seen_" + tag] = None if prev is None else prev.tolist()
    buf[...] = a
    return buf, a


def _edited(buf, orig):
    np = _impl()[0]
    return orig is not None and not np.array_equal(buf, orig, equal_nan=True)


def run_gsa(case):
    np, U, _ = _impl()
    f, f0 = _via_buffer("gsa_f", case["f"], case, "f")
    g, g0 = _via_buffer("gsa_g", case["g"], case, "g")
    if case.get("_previous_f") is not None or case.get("_previous_g") is not None:
        # replay of a history: first the call on the previous contents of the same buffers
        try:
            pf = np.array(case["_previous_f"], dtype=f.dtype).reshape(f.shape) if case.get("_previous_f") is not None else f0
            pg = np.array(case["_previous_g"], dtype=g.dtype).reshape(g.shape) if case.get("_previous_g") is not None else g0
            if f0 is not None:
                f[...] = pf
            if g0 is not None:
                g[...] = pg
            U.get_source_area(f, g)
        except Exception:
            pass
        if f0 is not None:
            f[...] = f0
        if g0 is not None:
            g[...] = g0
    try:
        r = U.get_source_area(f, g)
    except Exception as e:  # the property has no error outcome for equal-size inputs
        return None, "raised %s: %s" % (type(e).__name__, e)
    if _edited(f, f0) or _edited(g, g0):
        return None, "get_source_area edited its input array in place"
    return np.array(r, copy=True), None


def run_pct(case):
    np, _, epc = _impl()
    flx, flx0 = _via_buffer("pct_flx", case["flx"], case, "flx")
    if case.get("_previous_flx") is not None and flx0 is not None:
        try:
            flx[...] = np.array(case["_previous_flx"], dtype=flx.dtype).reshape(flx.shape)
            epc(flx, case["grid"], case["pct"], case["level"])
        except Exception:
            pass
        flx[...] = flx0
    try:
        lev, area = epc(flx, case["grid"], case["pct"], case["level"])
    except Exception as e:
        return None, "raised %s: %s" % (type(e).__name__, e)
    if _edited(flx, flx0):
        return None, "extract_percentile_contour edited its input array in place"
    return (lev, area), None


def case_hint(case):
    np = _impl()[0]
    if case["kind"] == "gsa":
        return {"kind": "gsa", "layout": case.get("layout", "CC"), "f": np.asarray(case["f"]).tolist(), "g": np.asarray(case["g"]).tolist(),
                "f_dtype": str(np.asarray(case["f"]).dtype), "g_dtype": str(np.asarray(case["g"]).dtype),
                "fk": case["fk"], "gk": case["gk"],
                "previous_contents_of_the_same_buffers": {"f": case.get("_prev_seen_f"), "g": case.get("_prev_seen_g")}}
    return {"kind": "pct", "flx": np.asarray(case["flx"]).tolist(),
            "grid": [np.asarray(a).tolist() for a in case["grid"]], "level": case["level"], "pct": case["pct"],
            "gridkind": case["gridkind"], "fk": case["fk"],
            "previous_contents_of_the_same_buffers": {"flx": case.get("_prev_seen_flx")}}


def case_from_hint(h):
    np = _impl()[0]
    if h["kind"] == "gsa":
        f = np.array(h["f"], dtype=h.get("f_dtype", "float64"))
        g = np.array(h["g"], dtype=h.get("g_dtype", "float64"))
        lay = h.get("layout", "CC")
        if lay[0] == "F":
            f = np.asfortranarray(f)
        if lay[1] == "F":
            g = np.asfortranarray(g)
        prev = h.get("previous_contents_of_the_same_buffers") or {}
        return {"kind": "gsa", "fk": h.get("fk", "?"), "gk": h.get("gk", "?"), "f": f, "g": g, "info": {"base": None}, "layout": lay,
                "_previous_f": prev.get("f"), "_previous_g": prev.get("g")}
    prev = h.get("previous_contents_of_the_same_buffers") or {}
    return {"kind": "pct", "fk": h.get("fk", "?"), "flx": np.array(h["flx"], dtype=float),
            "grid": tuple(np.array(a, dtype=float) for a in h["grid"]), "level": h["level"], "pct": h["pct"],
            "gridkind": h.get("gridkind", "?"), "_previous_flx": prev.get("flx")}


# ---------------------------------------------------------------------------------------------
# Coq terms


def recon_order(f, g, r):
    """an order reconstructed from the RESULT: g descending, then result ascending, then f ascending.
    If the result is the model's result for any order sorting g, it is for this one (used only as a
    second attempt when the code's tie order differs from np.argsort(g)[::-1]; Coq still checks that
    it is a sorting permutation and that the model reproduces the result under it)."""
    np = _impl()[0]
    gf = np.asarray(g).ravel()
    return np.lexsort((np.asarray(f).ravel(), np.asarray(r).ravel(), -gf.astype(float) if gf.dtype.kind in "iub" else -gf))


def gsa_term(case, r, reconstructed=False):
    np = _impl()[0]
    f, g = np.asarray(case["f"]), np.asarray(case["g"])
    order = recon_order(f, g, r) if reconstructed else np.argsort(g.ravel())[::-1]
    return "gsa_case %s %s %s %s %s" % ("true" if g.dtype.kind in "iu" else "false",
                                        q_list(fracs(f)), q_list(fracs(g)), ix_list(order), q_list(fracs(r)))


def pct_term(case, out):
    np = _impl()[0]
    flx = np.asarray(case["flx"])
    sl = flx[case["level"]] if flx.ndim == 3 else flx
    idx = np.argsort(sl.ravel())[::-1]
    X, Y, _ = case["grid"]
    return "pct_case %s %s %s %s %d%%nat %s %s %s" % (
        arr_lit(flx), arr_lit(X), arr_lit(Y), q_lit(Fraction(case["pct"])), case["level"], ix_list(idx),
        q_lit(Fraction(out[0])), q_lit(Fraction(out[1])))


def base_term(case):
    """exact comparison of a base function's values with the model (None when not exact on floats)"""
    np = _impl()[0]
    info = case["info"]
    b = info.get("base")
    g = np.asarray(case["g"])
    if b == "contribution":
        return "contrib_case %s %s" % (q_list(fracs(case["f"])), q_list(fracs(g)))
    if b == "circular":
        return "circ_case %s %s %s %s %s" % (q_list(fracs(info["X"])), q_list(fracs(info["Y"])),
                                             q_lit(fr_num(info["mp"][0])), q_lit(fr_num(info["mp"][1])), q_list(fracs(g)))
    if b in ("upwind", "crosswind"):
        u, v = info["wind"]
        speed = abs(u) + abs(v)  # axis-aligned: |wind|
        return "%s_case %s %s %s %s %s %s %s %s" % (
            b, q_list(fracs(info["X"])), q_list(fracs(info["Y"])), q_lit(fr_num(info["mp"][0])), q_lit(fr_num(info["mp"][1])),
            q_lit(Fraction(u)), q_lit(Fraction(v)), q_lit(Fraction(speed)), q_list(fracs(g)))
    return None


def fr_num(x):
    return Fraction(x) if isinstance(x, int) else Fraction(float(x))


HEADER = ("From Coq Require Import List ZArith QArith Bool.\n"
          "From BL Require Import Model.SourceArea Model.SourceAreaExec.\n"
          "Import ListNotations.\nOpen Scope Q_scope.\n")

CODES = {1: "the order passed in is not a permutation sorting the field non-increasingly (or wind data inconsistent)",
         2: "implementation result differs from the model", 3: "malformed case",
         4: "implementation result differs from the model and equals the model of the UNREPAIRED code (result stored in the integer dtype of g: truncated)"}


def eval_terms(ctx, prefix, terms, batch, shard, jobs=8):
    """terms: list of (case index, coq term : Z).  Returns {index: code} for non-zero codes."""
    cases = []
    for b in range(0, len(terms), batch):
        items = "; ".join("(%d%%Z, %s)" % (i, t) for i, t in terms[b:b + batch])
        cases.append(("b%d" % b, "filter (fun p => negb (Z.eqb (snd p) 0%%Z)) [%s]" % items))
    res = core.coq_eval_sharded(ctx, prefix, HEADER, cases, shard=shard, timeout=900, jobs=jobs)
    bad = {}
    if "__error__" in res:
        ctx.fail("correspondence", "C20:coq-eval-" + prefix, res["__error__"])
    for b in range(0, len(terms), batch):
        r = res.get("b%d" % b)
        if r is None:
            ctx.fail("correspondence", "C20:missing-batch-%s-%d" % (prefix, b), "no output from coqc")
            continue
        for m in re.finditer(r"\((-?\d+)(?:%Z)?,\s*(-?\d+)(?:%Z)?\)", r):
            bad[int(m.group(1))] = int(m.group(2))
    return bad


# ---------------------------------------------------------------------------------------------
# base functions: interval-certified correspondence with Model/SourceAreaBase.v (R side)

BASE_HEADER = (rcorr.HEADER + "From Coq Require Import Lra.\n"
               "From BL Require Import Model.KM Model.SourceAreaBase Proofs.SourceAreaBaseProofs.\n")
# One tactic for every goal: the function is read off the goal; for the sector function the quadrant (decided by the
# harness in exact rational arithmetic) is passed as a transparent marker `sec_xxx (P) := P` around the proposition, and
# the tactic rewrites with the corresponding proved closed form (side conditions: exact, by lra) before `interval`.
SECTOR_MARKS = {"sector:front": ("sec_front", "sector_front", True), "sector:back": ("sec_back", "sector_back", True),
                "sector:side": ("sec_side", "sector_side", False), "sector:tower-east": ("sec_tower_east", "sector_tower_east", None),
                "sector:tower-west": ("sec_tower_west", "sector_tower_west", None), "sector:tower-ns": ("sec_tower_ns", "sector_tower_ns", None)}


def _base_prelude():
    t = [BASE_HEADER]
    arms = ["  | |- Rabs (sa_circular _ _ _ _ - _) <= _ => unfold sa_circular",
            "  | |- Rabs (sa_upwind _ _ _ _ _ _ - _) <= _ => unfold sa_upwind, sa_speed",
            "  | |- Rabs (sa_crosswind _ _ _ _ _ _ - _) <= _ => unfold sa_crosswind, sa_speed"]
    for grp, (mark, lemma, unfold_cd) in sorted(SECTOR_MARKS.items()):
        t.append("Definition %s (P : Prop) : Prop := P." % mark)
        side = "by lra" if unfold_cd is None else "by (cbv beta delta [dist2 up_dot]; lra)"
        post = "; cbv beta delta [up_cross up_dot]" if unfold_cd else ""
        arms.append("  | |- %s _ => unfold %s; rewrite %s %s%s" % (mark, mark, lemma, side, post))
    t.append("Ltac sa_prep :=\n  lazymatch goal with\n" + "\n".join(arms) + "\n  end.")
    return "\n".join(t) + "\n"


BASE_FLOOR = Fraction(1, 10 ** 60)
BASE_REL = Fraction(1, 10 ** 12)


def _exact(v):
    """exact rational of a Python / numpy int or float scalar"""
    np = _impl()[0]
    if isinstance(v, (bool, np.bool_)):
        raise TypeError("boolean")
    if isinstance(v, (int, np.integer)):
        return Fraction(int(v))
    return Fraction(float(v))


def _scalar_json(v):
    np = _impl()[0]
    return int(v) if isinstance(v, (int, np.integer)) else float(v)


def base_goal(fn, x, y, xm, ym, u, v, g):
    """one element: exact Fractions in, (group, proposition) out; None when the element is outside the model's
    domain (sector/upwind/crosswind with wind = 0)"""
    px, py = x - xm, y - ym
    s1 = abs(px) + abs(py)
    lit = rcorr.rlit
    if fn == "circular":
        tol = BASE_REL * s1 * s1 + BASE_FLOOR
        return "circular", "Rabs (sa_circular %s %s %s %s - %s) <= %s" % (lit(x), lit(y), lit(xm), lit(ym), lit(g), lit(tol))
    if u == 0 and v == 0:
        return None
    args = " ".join(lit(z) for z in (x, y, xm, ym, u, v))
    if fn == "upwind":
        tol = BASE_REL * s1 + BASE_FLOOR
        return "upwind", "Rabs (sa_upwind %s - %s) <= %s" % (args, lit(g), lit(tol))
    if fn == "crosswind":
        tol = BASE_REL * s1 * s1 + BASE_FLOOR
        return "crosswind", "Rabs (sa_crosswind %s - %s) <= %s" % (args, lit(g), lit(tol))
    tol = BASE_REL + BASE_FLOOR
    prop = "Rabs (sa_sector %s - %s) <= %s" % (args, lit(g), lit(tol))
    if px == 0 and py == 0:
        grp = "sector:tower-east" if u < 0 else "sector:tower-west" if u > 0 else "sector:tower-ns"
    else:
        dot = px * (-u) + py * (-v)
        grp = "sector:front" if dot > 0 else "sector:back" if dot < 0 else "sector:side"
    return grp, "%s (%s)" % (SECTOR_MARKS[grp][0], prop)


def gen_base_inputs(rs, thorough):
    """array-level calls: dicts {kind, X, Y, mp, wind}; every choice from rs"""
    np = _impl()[0]
    out = []
    reps = 6 if thorough else 1

    def dy(lo, hi, den=8):
        return int(rs.integers(lo * den, hi * den + 1)) / float(den)

    def rnd_wind():
        w = (float(rs.normal(0, 3)), float(rs.normal(0, 3)))
        return w if w != (0.0, 0.0) else (1.0, -2.0)

    for _ in range(reps):
        # axis-aligned winds (float zeros: -v = -0.0), a small mesh around the tower that contains the tower itself,
        # cells on the axis in front of / behind the tower and cells exactly across
        for k in range(4):
            s = dy(1, 9, 4) or 1.0
            wind = [(s, 0.0), (-s, 0.0), (0.0, s), (0.0, -s)][k]
            mp = (dy(-8, 8), dy(-8, 8))
            xs = mp[0] + np.array([-2.0, 0.0, 1.5])
            ys = mp[1] + np.array([-1.25, 0.0])
            X, Y = np.meshgrid(xs, ys)
            out.append(dict(kind="axis-wind-mesh", X=X, Y=Y, mp=mp, wind=wind))
        # oblique winds, 1-D arrays of random cells
        for _k in range(5):
            mp = (float(rs.uniform(-50, 50)), float(rs.uniform(-50, 50)))
            n = int(rs.integers(2, 6))
            out.append(dict(kind="oblique-1d", X=rs.uniform(-100, 100, n), Y=rs.uniform(-100, 100, n), mp=mp, wind=rnd_wind()))
        # cells exactly on the wind axis (upwind ray t > 0, downwind t < 0) and exactly across (dot = 0), integer winds
        for wind in [(3, -4), (-5.0, -12.0), (1.0, 1.0), (-2, 7)][: (4 if thorough else 3)]:
            mp = (dy(-6, 6), dy(-6, 6))
            t = np.array([2.0, 0.5, -1.0, -3.0])
            out.append(dict(kind="on-axis", X=mp[0] + t * (-wind[0]), Y=mp[1] + t * (-wind[1]), mp=mp, wind=wind))
            out.append(dict(kind="across", X=mp[0] + t * (-wind[1]), Y=mp[1] + t * wind[0], mp=mp, wind=wind))
        # cell == tower: array and scalar inputs, every quadrant of the wind incl. the axes
        for wind in [(2.5, 1.0), (-2.5, 1.0), (-1.0, -3.0), (1.0, -3.0), (0.0, 2.0), (0.0, -2.0), (4.0, 0.0), (-4.0, 0.0), (0, 3), (2, 0)]:
            mp = (dy(-6, 6), dy(-6, 6))
            out.append(dict(kind="tower", X=np.array([mp[0]]), Y=np.array([mp[1]]), mp=mp, wind=wind))
        # large / small magnitudes of coordinates and of the wind
        for sc, wsc in [(1e7, 30.0), (1e-6, 1e-3), (1.0, 1e-8), (1e4, 1e6), (1e-5, 1e5)]:
            mp = (float(rs.uniform(-1, 1)) * sc, float(rs.uniform(-1, 1)) * sc)
            n = 3
            w = rnd_wind()
            out.append(dict(kind="magnitudes", X=rs.uniform(-1, 1, n) * sc, Y=rs.uniform(-1, 1, n) * sc, mp=mp, wind=(w[0] * wsc, w[1] * wsc)))
        # tower far from the origin, cells close to it (the subtraction X - xm cancels)
        mp = (float(rs.uniform(1e5, 1e6)), float(rs.uniform(-1e6, -1e5)))
        out.append(dict(kind="cancellation", X=mp[0] + rs.uniform(-3, 3, 3), Y=mp[1] + rs.uniform(-3, 3, 3), mp=mp, wind=rnd_wind()))
        # integer-typed coordinate arrays: integer / float tower, integer / float wind
        for k in range(4):
            xi = np.arange(3, dtype=np.int64) * int(rs.integers(1, 4)) + int(rs.integers(-4, 4))
            yi = np.arange(2, dtype=np.int64) * int(rs.integers(1, 4)) + int(rs.integers(-4, 4))
            X, Y = np.meshgrid(xi, yi)
            mp = (int(xi[1]), int(yi[0])) if k % 2 == 0 else (dy(-4, 4), dy(-4, 4))
            wind = (int(rs.integers(1, 6)) * (-1) ** k, int(rs.integers(-5, 6))) if k < 2 else rnd_wind()
            out.append(dict(kind="int-coords-2d", X=X, Y=Y, mp=mp, wind=wind))
        # 2-D float mesh as get_source_area users pass it, Fortran order, and broadcasting of a row against a column
        x = np.linspace(float(rs.uniform(-200, 0)), float(rs.uniform(1, 200)), 3)
        y = np.linspace(float(rs.uniform(-100, 0)), float(rs.uniform(1, 100)), 2)
        X, Y = np.meshgrid(x, y)
        mp = (float(rs.uniform(-20, 60)), float(rs.uniform(-20, 20)))
        out.append(dict(kind="mesh-2d", X=X, Y=Y, mp=mp, wind=rnd_wind()))
        out.append(dict(kind="mesh-2d-fortran", X=np.asfortranarray(X), Y=np.asfortranarray(Y), mp=mp, wind=rnd_wind()))
        out.append(dict(kind="broadcast-row-column", X=x[None, :], Y=y[:, None], mp=mp, wind=rnd_wind()))
        # scalars and numpy-scalar tower / wind
        out.append(dict(kind="scalar", X=float(rs.uniform(-9, 9)), Y=float(rs.uniform(-9, 9)), mp=(dy(-4, 4), dy(-4, 4)), wind=rnd_wind()))
        w = rnd_wind()
        out.append(dict(kind="numpy-scalar-args", X=rs.uniform(-9, 9, 2), Y=rs.uniform(-9, 9, 2),
                        mp=(np.float64(dy(-4, 4)), np.float64(dy(-4, 4))), wind=(np.float64(w[0]), np.float64(w[1]))))
    return out


BASE_FUNCS = ["circular", "upwind", "crosswind", "sector"]


def call_base(U, fn, X, Y, mp, wind):
    if fn == "circular":
        return U.source_area_circular(X, Y, mp)
    return getattr(U, "source_area_" + fn)(X, Y, mp, wind)


def base_hint(fn, x, y, mp, wind, kind=None, impl=None):
    h = {"kind": "base", "fn": fn, "X": [_scalar_json(x)], "Y": [_scalar_json(y)],
         "mp": [_scalar_json(mp[0]), _scalar_json(mp[1])], "wind": [_scalar_json(wind[0]), _scalar_json(wind[1])]}
    if kind is not None:
        h["array"] = kind
    if impl is not None:
        h["impl"] = _scalar_json(impl)
    return h


def check_contribution(ctx, rs, hist):
    """source_area_contribution(flx) = flx.copy(): same type, dtype, shape, bytes; a fresh buffer"""
    np, U, _ = _impl()
    n = 0
    base2 = rs.normal(size=(4, 5))
    inputs = [("float-2d", rs.random((3, 4))), ("float-3d", rs.random((2, 3, 2))), ("int64-2d", rs.integers(0, 9, size=(2, 3))),
              ("float32-2d", rs.random((2, 2)).astype(np.float32)), ("fortran", np.asfortranarray(rs.random((3, 2)))),
              ("strided-view", base2[::2, 1::2]), ("with-nan-inf-negzero", np.array([[np.nan, np.inf], [-0.0, 1.0]])),
              ("empty", np.zeros((0, 3)))]
    for name, f in inputs:
        n += 1
        hist["contribution:" + name] = hist.get("contribution:" + name, 0) + 1
        keep = f.copy()
        hint = {"kind": "base", "fn": "contribution", "flx": np.asarray(f).tolist(), "dtype": str(f.dtype)}
        try:
            g = U.source_area_contribution(f)
        except Exception as e:
            ctx.fail("correspondence", "C20:contribution-" + name, "source_area_contribution raised %s: %s" % (type(e).__name__, e), hint=hint)
            continue
        if not isinstance(g, np.ndarray) or g.dtype != f.dtype or g.shape != f.shape or np.ascontiguousarray(g).tobytes() != np.ascontiguousarray(f).tobytes():
            ctx.fail("correspondence", "C20:contribution-" + name, "result is not an identical array (type %s, dtype %s, shape %r)" % (
                type(g).__name__, getattr(g, "dtype", None), getattr(g, "shape", None)), hint=hint)
            continue
        if f.size and np.shares_memory(g, f):
            ctx.fail("correspondence", "C20:contribution-alias-" + name, "the result shares memory with the argument (not a copy)", hint=hint)
            continue
        if f.size and f.dtype.kind in "fi":
            g.ravel()[0] = 77
            g[...] = g + 1
            if np.ascontiguousarray(f).tobytes() != np.ascontiguousarray(keep).tobytes():
                ctx.fail("correspondence", "C20:contribution-alias-" + name, "writing to the result changed the argument", hint=hint)
    return n


def probe_degenerate():
    """what the code does for wind = (0,0) (outside the theorems' hypotheses): recorded, not judged"""
    np, U, _ = _impl()
    X, Y = np.meshgrid(np.array([-1.0, 0.0, 2.0]), np.array([0.0, 1.0]))
    out = {}
    for label, wind in (("float-zeros", (0.0, 0.0)), ("int-zeros", (0, 0))):
        for fn in ("upwind", "crosswind", "sector"):
            try:
                with np.errstate(all="ignore"):
                    g = np.asarray(call_base(U, fn, X, Y, (0.0, 0.0), wind), dtype=float)
                out["%s:%s" % (fn, label)] = ("all-nan" if np.isnan(g).all() else "some-nan" if np.isnan(g).any()
                                              else "finite, values %s" % np.round(g.ravel(), 6).tolist())
            except Exception as e:
                out["%s:%s" % (fn, label)] = "raises %s" % type(e).__name__
    return out


def check_base(ctx, rs, hist):
    """bridge + interval-certified correspondence of the base functions.  Returns the number of evaluations."""
    np, U, _ = _impl()
    sabaseslices.run(ctx)
    n_eval = check_contribution(ctx, rs, hist)
    groups = {}        # goal group -> [(cid, prop)]
    info = {}
    cells = set()
    n_calls = 0
    for ci, c in enumerate(gen_base_inputs(rs, ctx.thorough)):
        X, Y, mp, wind = c["X"], c["Y"], c["mp"], c["wind"]
        try:
            bshape = np.broadcast(np.asarray(X), np.asarray(Y)).shape
            bx, by = np.broadcast_arrays(np.asarray(X), np.asarray(Y))
        except ValueError:
            continue
        for fn in BASE_FUNCS:
            n_calls += 1
            key = "base:%s:%s" % (fn, c["kind"])
            hist[key] = hist.get(key, 0) + 1
            h0 = base_hint(fn, bx.ravel()[0], by.ravel()[0], mp, wind, c["kind"])
            try:
                with np.errstate(all="ignore"):     # non-finite results are reported below
                    g = call_base(U, fn, X, Y, mp, wind)
            except Exception as e:
                ctx.fail("correspondence", "C20:base-%s-%d" % (fn, ci), "source_area_%s raised %s: %s (%s)" % (fn, type(e).__name__, e, c["kind"]), hint=h0)
                continue
            ga = np.asarray(g)
            if ga.shape != bshape:
                ctx.fail("correspondence", "C20:base-%s-%d" % (fn, ci), "result shape %r, broadcast shape of X and Y %r (%s)" % (ga.shape, bshape, c["kind"]), hint=h0)
                continue
            if ga.dtype.kind not in "fiu" or (ga.dtype.kind == "f" and not np.all(np.isfinite(ga))):
                ctx.fail("correspondence", "C20:base-%s-%d" % (fn, ci), "result dtype %s / non-finite values for finite inputs and a non-zero wind (%s)" % (ga.dtype, c["kind"]), hint=h0)
                continue
            xm, ym, u, v = _exact(mp[0]), _exact(mp[1]), _exact(wind[0]), _exact(wind[1])
            for j, (xe, ye, ge) in enumerate(zip(bx.ravel(), by.ravel(), ga.ravel())):
                r = base_goal(fn, _exact(xe), _exact(ye), xm, ym, u, v, _exact(ge))
                if r is None:
                    continue
                grp, prop = r
                cid = "%s_%d_%d" % (fn[:2], ci, j)
                groups.setdefault(grp, []).append((cid, prop))
                info[cid] = (fn, base_hint(fn, xe, ye, mp, wind, c["kind"], ge), grp)
                hist["base_goal:" + grp] = hist.get("base_goal:" + grp, 0) + 1
                if (xe, ye) != (mp[0], mp[1]):
                    cells.add((fn, float(xe), float(ye), float(mp[0]), float(mp[1]), float(wind[0]), float(wind[1])))
    goals = [g for grp in sorted(groups) for g in groups[grp]]
    n_goals = len(goals)
    failing, err = rcorr.certify(ctx, "c20iv", _base_prelude(), "sa_prep;", goals, shard=48, jobs=10)
    if err and not failing:
        ctx.fail("correspondence", "C20:base-coq-interval", err)
    for cid in sorted(failing)[:8]:
        fn, h, grp = info[cid]
        ctx.fail("correspondence", "C20:base-" + cid,
                 "source_area_%s: |model - python| <= 1e-12*scale not certified (%s) at cell (%r, %r), tower %r, wind %r: python %r" % (
                     fn, grp, h["X"][0], h["Y"][0], h["mp"], h["wind"], h.get("impl")), hint=h)
    ctx.cov["base_functions"] = {
        "array_calls": n_calls, "interval_certified_elements": n_goals, "distinct_cells_off_tower": len(cells),
        "contribution_exact_checks": n_eval, "goal_groups": {k: len(v) for k, v in sorted(groups.items())},
        "tolerance": "1e-12*scale + 1e-60; scale = (|x-xm|+|y-ym|)^2 circular/crosswind, |x-xm|+|y-ym| upwind, 1 sector",
    }
    ctx.cov["base_degenerate"] = probe_degenerate()
    return n_eval + n_goals


# ---------------------------------------------------------------------------------------------
# check


def digest(*arrs):
    np = _impl()[0]
    h = hashlib.sha1()
    for a in arrs:
        a = np.ascontiguousarray(np.asarray(a))
        h.update(str(a.dtype).encode() + str(a.shape).encode() + a.tobytes())
    return h.hexdigest()


def nontrivial_gsa(case):
    np = _impl()[0]
    f, g = np.asarray(case["f"]).ravel(), np.asarray(case["g"]).ravel()
    return f.size >= 4 and len(set(f[f > 0].tolist())) >= 2 and len(set(g.tolist())) >= 2


def nontrivial_pct(case):
    np = _impl()[0]
    flx = np.asarray(case["flx"])
    sl = (flx[case["level"]] if flx.ndim == 3 else flx).ravel()
    return sl.size >= 4 and len(set(sl[sl > 0].tolist())) >= 2


def check(ctx):
    core.check_properties_file(ctx, "Properties/C20.v", THEOREMS, core.AX_NONE)
    chk_main = ctx.cov.pop("coqchk", None)         # thorough tier: keep both coqchk reports
    core.check_properties_file(ctx, "Properties/C20Base.v", THEOREMS_BASE, core.AX_REALS)
    if "coqchk" in ctx.cov:
        ctx.cov["coqchk_base"] = ctx.cov.pop("coqchk")
    if chk_main is not None:
        ctx.cov["coqchk"] = chk_main
    # array part, tie (B): the three function bodies re-translated from the current source, bridge re-proved
    py2coq_sa.run(ctx)
    np, U, epc = _impl()
    rs = np.random.default_rng(ctx.rng.getrandbits(64))
    rs_base = np.random.default_rng(ctx.rng.getrandbits(64))   # drawn second: the streams below see the same cases as before
    n_gsa = 7000 if ctx.thorough else 420
    n_pct = 5000 if ctx.thorough else 320

    # ---- get_source_area (and the base functions feeding it)
    cases = []
    for fk in F_KINDS[1:]:            # every (f kind, g kind) pair at least once, 2-D
        for gk in G_KINDS:
            cases.append(gen_gsa_case(rs, ctx.thorough, fk, gk, three_d=False))
    for gk in G_KINDS:                # every g kind on a 3-D input
        cases.append(gen_gsa_case(rs, ctx.thorough, "random", gk, three_d=True))
    while len(cases) < n_gsa:
        cases.append(gen_gsa_case(rs, ctx.thorough))
    terms, base_terms, seen, hist = [], [], set(), {}
    n_nontrivial = 0
    n_eval = 0

    def bump(key, val):
        hist.setdefault(key, {})
        hist[key][str(val)] = hist[key].get(str(val), 0) + 1

    for i, c in enumerate(cases):
        r, err = run_gsa(c)
        f, g = np.asarray(c["f"]), np.asarray(c["g"])
        bump("gsa_f_kind", c["fk"]); bump("gsa_g_kind", c["gk"]); bump("gsa_ndim", f.ndim)
        bump("gsa_cells", "<=8" if f.size <= 8 else "<=32" if f.size <= 32 else "<=128" if f.size <= 128 else ">128")
        bump("gsa_g_has_ties", len(set(g.ravel().tolist())) < g.size)
        bump("gsa_f_has_zeros", bool((f == 0).any()))
        bump("gsa_g_dtype", str(g.dtype))
        if err is not None:
            ctx.fail("correspondence", "C20:gsa-case-%d" % i, err, hint=case_hint(c))
            continue
        if tuple(r.shape) != tuple(g.shape):
            ctx.fail("correspondence", "C20:gsa-case-%d" % i, "result shape %r, input shape %r" % (r.shape, g.shape), hint=case_hint(c))
            continue
        if not (all_finite(r) and all_finite(g)):
            ctx.fail("correspondence", "C20:gsa-case-%d" % i, "non-finite values", hint=case_hint(c))
            continue
        terms.append((i, gsa_term(c, r)))
        bt = base_term(c)
        if bt is not None:
            base_terms.append((i, bt))
            bump("base_function_exact", c["info"]["base"])
        d = digest(f, g)
        if d not in seen:
            seen.add(d)
            if nontrivial_gsa(c):
                n_nontrivial += 1
    bad = eval_terms(ctx, "c20gsa", terms, batch=12, shard=4)
    n_eval += len(terms)
    # second attempt for value mismatches: the same comparison under the order reconstructed from the
    # result (a refactoring that only changes how ties in g are ordered must not raise an alarm; the
    # theorems hold for every sorting order)
    retry = [(i, gsa_term(cases[i], run_gsa(cases[i])[0], reconstructed=True)) for i, code in sorted(bad.items()) if code == 2]
    n_recon = 0
    if retry:
        bad2 = eval_terms(ctx, "c20gsa_retry", retry, batch=12, shard=4)
        for i, _ in retry:
            if i not in bad2:
                del bad[i]
                n_recon += 1
    hist["gsa_agree_only_under_reconstructed_tie_order"] = n_recon
    # cases that follow the model of the UNREPAIRED code (integer g -> truncated result): a failure,
    # unless known_findings.json carries that defect as an open entry (then the tree is expected to
    # follow that model and the finding is only named)
    known_open = any(k["property"] == "C20" and k.get("status", "open") == "open" and k["signature"] == SIG_TRUNC
                     for k in core.load_known())
    n_unrep = sum(1 for code in bad.values() if code == 4)
    hist["gsa_follows_unrepaired_model_integer_g"] = n_unrep
    if known_open and n_unrep:
        bad = {i: code for i, code in bad.items() if code != 4}
        if SIG_TRUNC not in ctx.known:
            core.log("KNOWN-FINDING: property=C20 get_source_area stores the result in the dtype of g: an integer-typed base field truncates the rescaled values (%d correspondence cases follow the unrepaired model)" % n_unrep)
            ctx.known.append(SIG_TRUNC)
    for i, code in sorted(bad.items())[:12]:
        c = cases[i]
        ctx.fail("correspondence", "C20:gsa-case-%d" % i,
                 "get_source_area vs model (f kind %s, g kind %s, shape %r, g dtype %s): %s" % (
                     c["fk"], c["gk"], np.asarray(c["f"]).shape, np.asarray(c["g"]).dtype, CODES.get(code, code)),
                 hint=case_hint(c))
    badb = eval_terms(ctx, "c20base", base_terms, batch=20, shard=4)
    n_eval += len(base_terms)
    for i, code in sorted(badb.items())[:12]:
        c = cases[i]
        ctx.fail("correspondence", "C20:base-case-%d" % i,
                 "source_area_%s vs model: %s" % (c["info"]["base"], CODES.get(code, code)), hint=case_hint(c))

    # ---- extract_percentile_contour
    pcases = []
    for fk in [k for k in F_KINDS if k != "int_counts"]:
        for _ in range(6):
            pcases.append(gen_pct_case(rs, ctx.thorough, fk))
    while len(pcases) < n_pct:
        pcases.append(gen_pct_case(rs, ctx.thorough))
    pterms = []
    kvals = {}
    for i, c in enumerate(pcases):
        out, err = run_pct(c)
        flx = np.asarray(c["flx"])
        bump("pct_f_kind", c["fk"]); bump("pct_field_ndim", flx.ndim); bump("pct_grid", c["gridkind"])
        bump("pct_fraction", "1" if c["pct"] == 1.0 else "1/64" if c["pct"] == 1 / 64.0 else "k/64")
        if err is not None:
            ctx.fail("correspondence", "C20:pct-case-%d" % i, err, hint=case_hint(c))
            continue
        if not isinstance(out[0], float) or not isinstance(out[1], float):
            ctx.fail("correspondence", "C20:pct-case-%d" % i, "result is not a pair of floats: %r" % (out,), hint=case_hint(c))
            continue
        pterms.append((i, pct_term(c, out)))
        sl = (flx[c["level"]] if flx.ndim == 3 else flx)
        X, Y, _ = c["grid"]
        d = digest(sl, np.asarray(c["pct"]), np.asarray(X).ravel()[:2], np.asarray(Y).ravel()[:2])
        if d not in seen:
            seen.add(d)
            if nontrivial_pct(c):
                n_nontrivial += 1
    badp = eval_terms(ctx, "c20pct", pterms, batch=12, shard=4)
    n_eval += len(pterms)
    for i, code in sorted(badp.items())[:12]:
        c = pcases[i]
        ctx.fail("correspondence", "C20:pct-case-%d" % i,
                 "extract_percentile_contour vs model (f kind %s, field %r, grid %s, pct %r, level %d): %s" % (
                     c["fk"], np.asarray(c["flx"]).shape, c["gridkind"], c["pct"], c["level"], CODES.get(code, code)),
                 hint=case_hint(c))

    # ---- base functions: bridge + interval-certified correspondence (Model/SourceAreaBase.v)
    n_base = check_base(ctx, rs_base, hist)
    n_eval += n_base

    samples = []
    for c in cases[:: max(1, len(cases) // 3)][:3]:
        h = case_hint(c)
        if np.asarray(c["f"]).size <= 40:
            r, _ = run_gsa(c)
            h["impl"] = None if r is None else np.asarray(r).tolist()
            samples.append(h)
    for c in pcases[:: max(1, len(pcases) // 3)][:3]:
        if np.asarray(c["flx"]).size <= 40:
            h = case_hint(c)
            h["impl"] = run_pct(c)[0]
            samples.append(h)
    ctx.cov.update({
        "evaluations": n_eval,
        "implementation": [U.__file__, sys.modules[epc.__module__].__file__],
        "distinct_nontrivial": n_nontrivial,
        "rule": ("three exact streams, each case evaluated by the implementation and by the Coq model (vm_compute over Q), compared in Coq: "
                 "(1) get_source_area on dyadic non-negative f (kinds %s) x base field g (kinds %s), every pair at least once, 2-D and 3-D, "
                 "with the concrete order np.argsort(g.ravel())[::-1] passed as data and checked in Coq to be a sorting permutation; "
                 "(2) the base functions contribution / circular / axis-aligned upwind and crosswind compared value by value (exact on dyadic coordinates); "
                 "(2b) ALL four coordinate base functions, element by element, against the real-number model Model/SourceAreaBase.v: each element a kernel-checked lemma "
                 "|model - python| <= 1e-12*scale closed by interval (axis-aligned and oblique winds, cells on the axis in front of / behind the tower, exactly across, at the tower, "
                 "large / small magnitudes, cancellation in X - xm, integer arrays, 1-D / 2-D / Fortran / broadcast arrays, scalars), contribution bit for bit and not aliased; "
                 "the five return expressions re-extracted from the source and proved equal to the model (bridge); "
                 "(3) extract_percentile_contour on 2-D and 3-D fields (level slicing), 1-D / 2-D / 3-D coordinate arrays, positive and negative spacings, "
                 "fractions k/64 incl. 1 and 1/64, against the linear-search and the binary-search model. "
                 "distinct_nontrivial = distinct inputs (sha1 of the arrays) with >= 4 cells, >= 2 distinct positive f values and (stream 1) >= 2 distinct g values"
                 % (sorted(set(F_KINDS)), G_KINDS)),
        "samples": samples[:6],
        "histogram": hist,
        "correspondence_mismatches": len(bad) + len(badb) + len(badp),
        "streams": {"get_source_area": len(terms), "base_functions": len(base_terms), "percentile": len(pterms), "base_functions_R": n_base},
    })


# ---------------------------------------------------------------------------------------------
# the property's own oracle: brute force, exact integers, no model


def _scaled_ints(vals):
    """list of Fractions -> (ints, D) with v = int / D (D a power of two for float inputs)"""
    D = 1
    for v in vals:
        if v.denominator > D:
            D = v.denominator
    return [v.numerator * (D // v.denominator) for v in vals], D


def _sum_exact(ints):
    """True when every partial sum of these non-negative integers, in any order, is a double"""
    nz = [k for k in ints if k]
    if not nz:
        return True
    t = min((k & -k).bit_length() - 1 for k in nz)
    return (sum(nz) >> t) < 2 ** 53


def brute_gsa(f, g, r, label=""):
    """the first clause of the property and its consequences, for one call.  Returns [(signature, text)]."""
    np = _impl()[0]
    f, g = np.asarray(f), np.asarray(g)
    out = []
    if not hasattr(r, "shape") or tuple(r.shape) != tuple(g.shape):
        return [("get_source_area:shape", "result shape %r for input shape %r" % (getattr(r, "shape", None), g.shape))]
    if not all_finite(r):
        return [("get_source_area:non-finite", "%sresult contains NaN/inf for a finite non-negative f" % label)]
    ff, rr = fracs(f), fracs(r)
    gg = g.ravel().tolist()          # floats / ints compare exactly
    n = len(ff)
    fi, D = _scaled_ints(ff)
    exact = _sum_exact(fi)
    total = sum(fi)
    slack = Fraction(0) if exact else Fraction(2 * n * total, 2 ** 53)
    int_trunc = np.asarray(r).dtype.kind in "iu" and f.dtype.kind == "f"
    for c in range(n):
        lo = sum(fi[i] for i in range(n) if gg[i] > gg[c])
        hi = sum(fi[i] for i in range(n) if i != c and gg[i] >= gg[c])
        v = rr[c] * D
        if v < lo - slack or v > hi + slack:
            which = "below-lower-bound" if v < lo - slack else "above-upper-bound"
            # an integer result compatible with C truncation of some value inside the bounds
            trunc_like = (int_trunc and g.dtype.kind in "iu" and rr[c] >= 0 and rr[c] * D <= hi and (rr[c] + 1) * D > lo)
            sig = SIG_TRUNC if trunc_like else "get_source_area:" + which
            out.append((sig, "%scell %d: value %s, sum of f over cells with larger g = %s, over other cells with larger-or-equal g = %s (result dtype %s, g dtype %s)"
                        % (label, c, float(rr[c]), float(Fraction(lo, D)), float(Fraction(hi, D)), np.asarray(r).dtype, g.dtype)))
            break
    if out:          # the consequences below fail for the same reason
        return out
    for c in range(n):
        v = rr[c] * D
        if v < -slack or v > total - fi[c] + slack or (exact and fi[c] > 0 and not v < total):
            out.append(("get_source_area:range", "%scell %d: value %s outside [0, total - f_c] = [0, %s]" % (label, c, float(rr[c]), float(Fraction(total - fi[c], D)))))
            break
    done = False
    for a in range(n):
        for b in range(n):
            if gg[a] < gg[b] and rr[a] * D < rr[b] * D + fi[b] - 2 * slack:
                out.append(("get_source_area:antitone", "%sg[%d] < g[%d] but value %s < %s + f = %s" % (label, a, b, float(rr[a]), float(rr[b]), float(rr[b] + ff[b]))))
                done = True
                break
        if done:
            break
    return out


def oracle_gsa(case, rs):
    """all clauses about get_source_area for one (f, g)"""
    np, U, _ = _impl()
    f, g = np.asarray(case["f"]), np.asarray(case["g"])
    r, err = run_gsa(case)
    if err is not None:
        return [("get_source_area:raises", err)]
    out = brute_gsa(f, g, r)
    if out:
        return out
    gflat = g.ravel()
    vals, inv, cnt = np.unique(gflat, return_inverse=True, return_counts=True)
    untied = cnt[inv] == 1
    fi, D = _scaled_ints(fracs(f))
    exact = _sum_exact(fi)
    # strictly increasing transformation of g: new strictly increasing values for the distinct levels
    steps = rs.integers(1, 9, size=vals.size).astype(float) / 4.0
    newvals = np.cumsum(steps) - float(rs.integers(0, 20))
    g2 = newvals[inv].reshape(g.shape)
    r2 = U.get_source_area(f, g2)
    o2 = brute_gsa(f, g, r2, label="after a strictly increasing transformation of g, ")
    if o2:
        return [("get_source_area:transform", o2[0][1])]
    if exact and not np.array_equal(np.asarray(r2).ravel()[untied], np.asarray(r).ravel()[untied]):
        return [("get_source_area:transform", "values at cells with an untied g changed under a strictly increasing transformation of g")]
    # common permutation of the cells
    pi = rs.permutation(gflat.size)
    fp = f.ravel()[pi].reshape(f.shape)
    gp = gflat[pi].reshape(g.shape)
    rp = U.get_source_area(fp, gp)
    o3 = brute_gsa(fp, gp, rp, label="after a common permutation of the cells, ")
    if o3:
        return [("get_source_area:permutation", o3[0][1])]
    if exact and not np.array_equal(np.asarray(rp).ravel()[untied[pi]], np.asarray(r).ravel()[pi][untied[pi]]):
        return [("get_source_area:permutation", "values at untied cells do not follow a common permutation of the cells")]
    return []


def _is_double(q):
    try:
        return Fraction(float(q)) == q
    except OverflowError:
        return False


def brute_pct(flx, grid, pct, level, out):
    """fewest top cells reaching pct*total, level = their minimum, area = count * cell.  -> [(sig, text)]"""
    np = _impl()[0]
    flx = np.asarray(flx)
    sl = flx[level] if flx.ndim == 3 else flx
    X, Y, _ = grid
    X, Y = np.asarray(X), np.asarray(Y)
    if X.ndim == 3:
        X, Y = X[level], Y[level]
    dx = fracs(X[0, :2]) if X.ndim == 2 else fracs(X[:2])
    dy = fracs(Y[:2, 0]) if Y.ndim == 2 else fracs(Y[:2])
    cell = abs(dx[1] - dx[0]) * abs(dy[1] - dy[0])
    vals = sorted(fracs(sl), reverse=True)
    n = len(vals)
    total = sum(vals)
    p = Fraction(pct)
    target = p * total
    pref, acc = [], Fraction(0)
    for v in vals:
        acc += v
        pref.append(acc)
    exact = all(_is_double(q) and _is_double(q * cell) for q in pref) and _is_double(target * cell) and _is_double(cell)
    slack = Fraction(0) if exact else Fraction(4 * n, 2 ** 53) * total
    if not all(x == x and abs(x) != float("inf") for x in out):
        return [("percentile:non-finite", "result %r" % (out,))]
    lev, area = Fraction(out[0]), Fraction(out[1])
    if cell == 0:
        return []
    cnt = area / cell
    if not exact and cnt.denominator != 1:
        cnt = Fraction(round(cnt))      # area = (k+1)*cell_area rounded once
    if cnt.denominator != 1 or not (1 <= cnt <= n):
        return [("percentile:area", "area %s is not (a count in 1..%d) x cell area %s" % (float(area), n, float(cell)))]
    m = int(cnt)
    res = []
    if pref[m - 1] < target - slack or (m >= 2 and pref[m - 2] >= target + slack):
        mstar = next(j + 1 for j in range(n) if pref[j] >= target)
        res.append(("percentile:not-least-count", "area/cell = %d cells, but the fewest top cells whose sum reaches %s x total is %d" % (m, float(p), mstar)))
    ok_levels = {vals[m - 1]}
    if lev not in ok_levels:
        res.append(("percentile:level-not-minimum", "level %s is not the smallest (%s) of the %d highest cells" % (float(lev), float(vals[m - 1]), m)))
    return res


def oracle_pct(case, rs):
    np, _, epc = _impl()
    out, err = run_pct(case)
    if err is not None:
        return [("percentile:raises", err)]
    res = brute_pct(case["flx"], case["grid"], case["pct"], case["level"], out)
    if res:
        return res
    # monotone in p
    ladder = sorted(set([case["pct"], 1.0, 0.5, 1 / 64.0] + [int(k) / 64.0 for k in rs.integers(1, 65, size=5)]))
    prev = None
    for p in ladder:
        o = epc(case["flx"], case["grid"], p, case["level"])
        b = brute_pct(case["flx"], case["grid"], p, case["level"], o)
        if b:
            return b
        if prev is not None and (o[1] < prev[1][1] or o[0] > prev[1][0]):
            return [("percentile:monotone", "p=%r -> (level, area)=%r but p=%r -> %r" % (prev[0], prev[1], p, o))]
        prev = (p, o)
    # scaling
    flx = np.asarray(case["flx"], dtype=float)
    # powers of two scale every float operation of the computation exactly; 3 only on small dyadic data
    for s in (2.0, 0.25, 3.0):
        sf = flx * s
        if s == 3.0 and not (pct_exact(flx, case) and pct_exact(sf, case)):
            continue
        o = epc(sf, case["grid"], case["pct"], case["level"])
        if o[1] != out[1] or o[0] != s * out[0]:
            return [("percentile:scaling", "f -> %g f changes (level, area) from %r to %r" % (s, out, o))]
    return []


def pct_exact(flx, case):
    """every number extract_percentile_contour forms on this input is a double (no rounding anywhere)"""
    np = _impl()[0]
    flx = np.asarray(flx)
    sl = flx[case["level"]] if flx.ndim == 3 else flx
    X, Y, _ = case["grid"]
    X, Y = np.asarray(X), np.asarray(Y)
    if X.ndim == 3:
        X, Y = X[case["level"]], Y[case["level"]]
    dx = fracs(X[0, :2]) if X.ndim == 2 else fracs(X[:2])
    dy = fracs(Y[:2, 0]) if Y.ndim == 2 else fracs(Y[:2])
    cell = abs(dx[1] - dx[0]) * abs(dy[1] - dy[0])
    vals = sorted(fracs(sl), reverse=True)
    acc, ok = Fraction(0), _is_double(cell)
    for v in vals:
        acc += v
        ok = ok and _is_double(acc) and _is_double(acc * cell)
    return ok and _is_double(Fraction(case["pct"]) * acc * cell)


def realistic_cases(rs, k):
    """non-dyadic fields (rounding happens; the oracle then allows the rigorous summation error bound)"""
    np, U, _ = _impl()
    out = []
    for _ in range(k):
        ny, nx = int(rs.integers(3, 11)), int(rs.integers(3, 11))
        x = np.linspace(-50, 150, nx)
        y = np.linspace(-60, 60, ny)
        X, Y = np.meshgrid(x, y)
        sx, sy = rs.uniform(20, 80), rs.uniform(10, 40)
        f = np.exp(-((X - rs.uniform(0, 100)) ** 2) / sx ** 2 - (Y ** 2) / sy ** 2)
        f = f / f.sum()
        wind = (float(rs.normal(0, 3)), float(rs.normal(0, 3) + 0.1))
        mp = (float(rs.uniform(-10, 60)), float(rs.uniform(-10, 10)))
        g = [U.source_area_contribution(f), U.source_area_circular(X, Y, mp), U.source_area_upwind(X, Y, mp, wind),
             U.source_area_crosswind(X, Y, mp, wind), U.source_area_sector(X, Y, mp, wind)][int(rs.integers(0, 5))]
        out.append({"kind": "gsa", "fk": "realistic", "gk": "base", "f": f, "g": g, "info": {"base": None}})
        xd = np.arange(nx) * 8.0
        yd = np.arange(ny) * 4.0
        out.append({"kind": "pct", "fk": "realistic", "flx": f, "grid": (np.meshgrid(xd, yd)[0], np.meshgrid(xd, yd)[1], np.zeros(1)),
                    "gridkind": "2d", "level": 0, "pct": float(rs.choice([0.5, 0.8, 0.9, 0.25]))})
    return out


def case_size(c):
    np = _impl()[0]
    return int(np.asarray(c["f"] if c["kind"] == "gsa" else c["flx"]).size)


# ---------------------------------------------------------------------------------------------
# base functions: their four semantic statements on the real code (independent float formulas, no model)

ORACLE_REL = 1e-9


def _base_arrays(h):
    np = _impl()[0]
    X = np.array(h["X"], dtype=h.get("x_dtype", None))
    Y = np.array(h["Y"], dtype=h.get("y_dtype", None))
    return X, Y, tuple(h["mp"]), tuple(h["wind"])


def base_semantics(h):
    """the semantic statement of one base function for one call.  h: {fn, X, Y, mp, wind} (lists).  -> [(sig, text)]"""
    np, U, _ = _impl()
    fn = h["fn"]
    if fn == "contribution":
        f = np.array(h["flx"], dtype=h.get("dtype", "float64"))
        keep = f.copy()
        try:
            g = U.source_area_contribution(f)
        except Exception as e:
            return [("base:raises", "source_area_contribution raised %s: %s" % (type(e).__name__, e))]
        if not isinstance(g, np.ndarray) or g.shape != f.shape or g.dtype != f.dtype or not np.array_equal(g, f, equal_nan=(f.dtype.kind == "f")):
            return [("base:contribution-not-copy", "source_area_contribution(flx) differs from flx")]
        if f.size and np.shares_memory(g, f):
            return [("base:contribution-aliases-input", "source_area_contribution(flx) shares memory with flx")]
        if f.size and f.dtype.kind in "fi":
            g[...] = g + 1
            if not np.array_equal(f, keep, equal_nan=(f.dtype.kind == "f")):
                return [("base:contribution-aliases-input", "writing to the result of source_area_contribution changed flx")]
        return []
    X, Y, mp, wind = _base_arrays(h)
    xm, ym = float(mp[0]), float(mp[1])
    u, v = float(wind[0]), float(wind[1])
    sp = math.hypot(u, v)
    if sp == 0.0 and fn != "circular":
        return []
    try:
        with np.errstate(all="ignore"):
            g = np.asarray(call_base(U, fn, X, Y, mp, wind))
    except Exception as e:
        return [("base:raises", "source_area_%s raised %s: %s" % (fn, type(e).__name__, e))]
    bx, by = np.broadcast_arrays(np.asarray(X, dtype=float), np.asarray(Y, dtype=float))
    if g.shape != bx.shape:
        return [("base:shape", "source_area_%s returns shape %r for coordinates of shape %r" % (fn, g.shape, bx.shape))]
    gv = np.asarray(g, dtype=float).ravel()
    px, py = bx.ravel() - xm, by.ravel() - ym
    s1 = np.abs(px) + np.abs(py)
    out = []

    def first_bad(expect, tol, sig, what):
        if not np.all(np.isfinite(gv)):
            out.append((sig, "source_area_%s returns non-finite values for finite inputs and a non-zero wind" % fn))
            return
        bad = np.nonzero(np.abs(gv - expect) > tol)[0]
        if bad.size:
            j = int(bad[0])
            out.append((sig, "source_area_%s at cell (%r, %r), tower (%r, %r), wind (%r, %r): returns %r, %s = %r"
                        % (fn, float(bx.ravel()[j]), float(by.ravel()[j]), xm, ym, u, v, float(gv[j]), what, float(expect[j]))))

    def again(wind2=None, X2=None, Y2=None, mp2=None):
        with np.errstate(all="ignore"):
            return np.asarray(call_base(U, fn, X if X2 is None else X2, Y if Y2 is None else Y2, mp if mp2 is None else mp2,
                                        wind if wind2 is None else wind2), dtype=float).ravel()

    if fn == "circular":
        first_bad(-(px * px + py * py), ORACLE_REL * s1 * s1 + 1e-300, "base:circular-not-distance", "-(squared distance to the tower)")
        if not out:
            d = np.hypot(px, py)
            for a in range(gv.size):
                nearer = np.nonzero(d[a] < d * (1 - 1e-6))[0]
                if nearer.size and not np.all(gv[a] > gv[nearer]):
                    out.append(("base:circular-not-distance", "a cell nearer to the tower does not have the larger value"))
                    break
        return out
    if fn == "upwind":
        first_bad((px * u + py * v) / sp, ORACLE_REL * s1 + 1e-300, "base:upwind-not-projection", "(cell - tower) . wind / |wind|")
        if not out:
            if np.any(np.abs(again((-u, -v)) + gv) > ORACLE_REL * s1 + 1e-300):
                out.append(("base:upwind-reversal", "reversing the wind does not change the sign of source_area_upwind"))
            if np.any(np.abs(again((4 * u, 4 * v)) - gv) > ORACLE_REL * s1 + 1e-300):
                out.append(("base:upwind-scale", "source_area_upwind changes when the wind is multiplied by 4"))
        return out
    if fn == "crosswind":
        perp = (py * u - px * v) / sp
        first_bad(-(perp * perp), ORACLE_REL * s1 * s1 + 1e-300, "base:crosswind-not-perpendicular-distance",
                  "-(distance to the wind axis through the tower)^2")
        if not out:
            with np.errstate(all="ignore"):
                gu = np.asarray(U.source_area_upwind(X, Y, mp, wind), dtype=float).ravel()
            if np.any(np.abs(gu * gu - gv - (px * px + py * py)) > 4 * ORACLE_REL * s1 * s1 + 1e-300):
                out.append(("base:pythagoras", "source_area_upwind^2 - source_area_crosswind differs from the squared distance to the tower"))
            if np.any(np.abs(again((-u, -v)) - gv) > ORACLE_REL * s1 * s1 + 1e-300) or np.any(np.abs(again((4 * u, 4 * v)) - gv) > ORACLE_REL * s1 * s1 + 1e-300):
                out.append(("base:crosswind-reversal", "source_area_crosswind changes when the wind is reversed / multiplied by 4"))
        return out
    # sector
    dot = px * (-u) + py * (-v)
    cross = py * (-u) - px * (-v)
    expect = -np.arctan2(np.abs(cross), dot)
    at_tower = (px == 0) & (py == 0)
    expect = np.where(at_tower, -abs(math.atan2(-v if v != 0 else 0.0, -u if u != 0 else 0.0)), expect)
    first_bad(expect, ORACLE_REL, "base:sector-not-angle", "-(angle between cell - tower and the upwind direction -wind)")
    if not out:
        if np.any(gv > 0) or np.any(gv < -math.pi - 1e-12):
            out.append(("base:sector-range", "source_area_sector outside [-pi, 0]"))
        off = ~at_tower
        if np.any(off):
            # mirror image in the wind axis, tower moved to the origin (so that only the displacement is rounded)
            al = (px * u + py * v) / (sp * sp)
            mx, my = 2 * al * u - px, 2 * al * v - py
            g0 = again(X2=px[off], Y2=py[off], mp2=(0.0, 0.0))
            g1 = again(X2=mx[off], Y2=my[off], mp2=(0.0, 0.0))
            if np.any(np.abs(g0 - g1) > ORACLE_REL):
                out.append(("base:sector-symmetry", "source_area_sector differs between a cell and its mirror image in the wind axis"))
            g2 = again(wind2=(4 * u, 4 * v))
            if np.any(np.abs(g2 - gv) > ORACLE_REL):
                out.append(("base:sector-scale", "source_area_sector changes when the wind is multiplied by 4"))
    return out


def oracle_base(rs, hints, thorough):
    """-> list of {signature, what, replay} for the base functions"""
    np = _impl()[0]
    pool = []
    for h in hints:
        if h and h.get("kind") == "base":
            pool.append(dict(h))
    # hand-picked small inputs first: tower (1, 2), wind (3, 4) [speed 5]; the cells: on the upwind ray, behind the
    # tower, exactly across on both sides, oblique, the tower itself
    Xh = [1.0 - 3.0, 1.0 + 6.0, 1.0 - 4.0, 1.0 + 4.0, 6.0, 1.0, -2.5]
    Yh = [2.0 - 4.0, 2.0 + 8.0, 2.0 + 3.0, 2.0 - 3.0, 2.0, 2.0, 7.0]
    for fn in BASE_FUNCS:
        pool.append({"kind": "base", "fn": fn, "X": Xh, "Y": Yh, "mp": [1.0, 2.0], "wind": [3.0, 4.0]})
        pool.append({"kind": "base", "fn": fn, "X": Xh, "Y": Yh, "mp": [1.0, 2.0], "wind": [0.5, -0.25]})
        pool.append({"kind": "base", "fn": fn, "X": [[0, 1, 2], [0, 1, 2]], "Y": [[0, 0, 0], [3, 3, 3]], "mp": [1, 0], "wind": [0.0, -2.0],
                     "x_dtype": "int64", "y_dtype": "int64"})
    pool.append({"kind": "base", "fn": "contribution", "flx": [[0.125, 0.25], [0.5, 0.125]], "dtype": "float64"})
    pool.append({"kind": "base", "fn": "contribution", "flx": [[1, 2], [3, 4]], "dtype": "int64"})
    for c in gen_base_inputs(rs, thorough):
        bx, by = np.broadcast_arrays(np.asarray(c["X"]), np.asarray(c["Y"]))
        for fn in BASE_FUNCS:
            pool.append({"kind": "base", "fn": fn, "X": bx.tolist(), "Y": by.tolist(), "x_dtype": str(bx.dtype), "y_dtype": str(by.dtype),
                         "mp": [_scalar_json(c["mp"][0]), _scalar_json(c["mp"][1])], "wind": [_scalar_json(c["wind"][0]), _scalar_json(c["wind"][1])]})
    found = {}
    n = 0
    for h in pool:
        try:
            res = base_semantics(h)
        except Exception as e:
            res = [("oracle:crash-on-input", "%s: %s" % (type(e).__name__, e))]
        n += 1
        for sig, text in res:
            if sig not in found:
                found[sig] = (text, h)
    out = []
    for sig, (text, h) in sorted(found.items()):
        out.append({"signature": sig, "what": "%s: %s" % (sig, text),
                    "replay": {"input": h, "how": "bldfm.utils.source_area_%s called on the recorded input and compared with the semantic statement of C20 for this base function (independent float formula, tolerance 1e-9)" % h["fn"]}})
    return out, n


def oracle(ctx, hints):
    np = _impl()[0]
    rs = np.random.default_rng(ctx.rng.getrandbits(64) ^ 0xC20)
    pool = []
    for h in hints:
        if h and h.get("kind") in ("gsa", "pct"):
            try:
                pool.append(case_from_hint(h))
            except Exception:
                pass
    # small hand-picked inputs first (so that a failing input is minimal when the defect is gross)
    f22 = np.array([[0.125, 0.25], [0.5, 0.125]])
    X22, Y22 = np.meshgrid(np.arange(2), np.arange(2))
    pool.append({"kind": "gsa", "fk": "hand", "gk": "contribution", "f": f22, "g": f22.copy(), "info": {}})
    pool.append({"kind": "gsa", "fk": "hand", "gk": "int_class", "f": f22, "g": np.array([[3, 1], [1, 2]]), "info": {}})
    pool.append({"kind": "gsa", "fk": "hand", "gk": "circular_int", "f": f22, "g": -((X22 - 0) ** 2 + (Y22 - 0) ** 2), "info": {}})
    pool.append({"kind": "gsa", "fk": "hand", "gk": "ties", "f": np.array([[0.5, 0.0, 0.25], [0.25, 0.0, 0.5]]),
                 "g": np.array([[1.0, 1.0, 2.0], [0.0, 2.0, 1.0]]), "info": {}})
    for p in (0.5, 0.75, 1.0, 1 / 64.0):
        pool.append({"kind": "pct", "fk": "hand", "flx": np.array([[0.125, 0.5], [0.25, 0.125]]),
                     "grid": (np.array([0.0, 2.0]), np.array([0.0, 1.0]), np.zeros(1)), "gridkind": "1d", "level": 0, "pct": p})
    n_sweep = 900 if ctx.thorough else 120
    for _ in range(n_sweep):
        pool.append(gen_gsa_case(rs, False))
        pool.append(gen_pct_case(rs, False))
    pool += realistic_cases(rs, 120 if ctx.thorough else 10)
    found = {}
    checked = 0
    for c in pool:
        if case_size(c) > 260:
            continue
        try:
            res = oracle_gsa(c, rs) if c["kind"] == "gsa" else oracle_pct(c, rs)
        except Exception as e:
            res = [("oracle:crash-on-input", "%s: %s" % (type(e).__name__, e))]
        checked += 1
        for sig, text in res:
            if sig not in found or case_size(c) < found[sig][0]:
                found[sig] = (case_size(c), text, c)
    ctx.cov["oracle_inputs_checked"] = checked
    out, n_base = oracle_base(rs, hints, ctx.thorough)
    ctx.cov["oracle_base_calls_checked"] = n_base
    for sig, (size, text, c) in sorted(found.items()):
        api = "bldfm.utils.get_source_area(f, g)" if c["kind"] == "gsa" else "bldfm.plotting.footprint.extract_percentile_contour(flx, grid, pct, level)"
        out.append({"signature": sig, "what": "%s: %s" % (sig, text),
                    "replay": {"input": case_hint(c), "how": api + " checked against the brute-force statement of C20 (exact integer arithmetic)"}})
    return out


def replay(body):
    np = _impl()[0]
    if "input" not in body:
        print("no concrete input recorded (the model/implementation tie broke without a failing input)")
        return 0
    if body["input"].get("kind") == "base":
        h = body["input"]
        U = _impl()[1]
        if h["fn"] == "contribution":
            print("flx (dtype %s) =\n%s" % (h.get("dtype"), np.array(h["flx"], dtype=h.get("dtype", "float64"))))
        else:
            X, Y, mp, wind = _base_arrays(h)
            print("X = %s\nY = %s\ntower = %r, wind = %r" % (X.tolist(), Y.tolist(), mp, wind))
            try:
                with np.errstate(all="ignore"):
                    print("source_area_%s -> %s" % (h["fn"], np.asarray(call_base(U, h["fn"], X, Y, mp, wind)).tolist()))
            except Exception as e:
                print("source_area_%s raised %s: %s" % (h["fn"], type(e).__name__, e))
        res = base_semantics(h)
        for sig, text in res:
            print("FAILS  %s: %s" % (sig, text))
        if not res:
            print("holds")
        return 1 if res else 0
    c = case_from_hint(body["input"])
    rs = np.random.default_rng(0)
    if c["kind"] == "gsa":
        r, err = run_gsa(c)
        print("f (dtype %s) =\n%s" % (c["f"].dtype, c["f"]))
        print("g (dtype %s) =\n%s" % (c["g"].dtype, c["g"]))
        print("get_source_area(f, g) =\n%s" % (r if err is None else err))
        res = oracle_gsa(c, rs)
    else:
        out, err = run_pct(c)
        print("flx =\n%s\npct = %r, level = %d, grid kind %s" % (c["flx"], c["pct"], c["level"], c["gridkind"]))
        print("extract_percentile_contour -> %r" % (out if err is None else err,))
        res = oracle_pct(c, rs)
    for sig, text in res:
        print("FAILS  %s: %s" % (sig, text))
    if not res:
        print("holds")
    return 1 if res else 0
