"""Fail-closed translator for the result cache (tie B of property C15).

Reads the CURRENT  <src>/bldfm/cache.py  and  <src>/bldfm/solver.py  with `ast` and emits GenCache.v:

  gen_key_feeds          _compute_key: for every h.update(...) in source order the parameter it depends on and the
                         canonical form applied (np.asarray(x).tobytes(), str(x).encode(), x.encode(), and the
                         components of the repr(extra) tuple)
  gen_get_params/_put_   the parameters of _compute_key that the positional parameters of get / put are forwarded to
  gen_get_flow           statement skeleton of get   (Model/CacheFlow.v: gflow)
  gen_get_members        which member of the .npz each part of the returned ((X, Y, Z), conc, flx) is read from
  gen_put_flow           statement skeleton of put   (pflow)
  gen_put_members        which part of the result each member stores
  gen_clear_globs        the glob patterns clear() unlinks
  gen_solver_cache_flow  the cache block of steady_state_transport_solver (sflow): halo resolution, guard, the
                         cache_extra dict, cache.get(...), `return cached`, the body, cache.put(...), `return result`
  gen_key_fields         (derived inside Coq) the request fields hashed at the lookup
  gen_put_key_fields     the request fields hashed at the store

coq/Bridge/CacheBridge.v proves on every run that these are interpreted to exactly Model.Cache.key / get /
write_ops / solve_with_cache for all stores and requests.

Only the statement and expression forms that are in the source today are accepted.  Everything else raises
TranslateError: an in-memory layer, an extra attribute in __init__, a helper method, a rounded or re-derived key
argument, arithmetic on the cached answer, a different guard operand, a key argument re-bound between lookup and
store.  Names of LOCAL variables are not pinned (they are identified by the role of their first binding), a
narrower `except`, a write straight to the final path, a swapped guard order, a lookup placed before the halo
resolution ARE translated: those are decided by the bridge lemmas, not by the translator."""
import ast
import os

from py2coq import TranslateError

KPARAM = {"z": "KpZ", "profiles": "KpProfiles", "domain": "KpDomain", "modes": "KpModes", "meas_pt": "KpMeasPt",
          "halo": "KpHalo", "precision": "KpPrecision", "levels": "KpLevels", "shape": "KpShape",
          "analytic": "KpAnalytic", "srf_bg_conc": "KpBg"}
SARG = {"z": "AZ", "profiles": "AProfiles", "domain": "ADomain", "modes": "AModes", "meas_pt": "AMeasPt",
        "halo": "AHalo", "precision": "APrecision", "levels": "ALevels", "analytic": "AAnalytic",
        "srf_bg_conc": "ABg", "srf_flx": "ASrfFlx", "footprint": "AFootprint"}
EXC = {"BaseException": "EBaseException", "Exception": "EException", "OSError": "EOSError"}
SLOTS = {(0, 0): "SlGridX", (0, 1): "SlGridY", (0, 2): "SlGridZ", (1,): "SlConc", (2,): "SlFlx"}
RESERVED = {"np", "os", "tempfile", "hashlib", "Path", "str", "repr", "bool", "float", "int", "tuple", "max", "dict",
            "Exception", "BaseException", "OSError", "None", "True", "False", "self", "logger"}
CLASS = "GreensFunctionCache"
SOLVER = "steady_state_transport_solver"


def _err(where, node, why):
    txt = ast.unparse(node) if isinstance(node, ast.AST) else str(node)
    line = getattr(node, "lineno", "?")
    raise TranslateError("%s: %s (line %s): %s" % (where, why, line, " ".join(txt.split())[:160]))


def _dump(n):
    # the expression context (Load / Store / Del) is not part of the comparison
    return ast.dump(n, annotate_fields=False, include_attributes=False).replace("Store()", "Load()").replace("Del()", "Load()")


def _is(node, src):
    """node is exactly the expression written in src"""
    return _dump(node) == _dump(ast.parse(src, mode="eval").body)


def _is_doc(st):
    return isinstance(st, ast.Expr) and isinstance(st.value, ast.Constant) and isinstance(st.value.value, str)


def _is_logging(st):
    if isinstance(st, ast.Expr) and isinstance(st.value, ast.Call):
        f = st.value.func
        return (isinstance(f, ast.Attribute) and isinstance(f.value, ast.Name) and f.value.id == "logger"
                and f.attr in ("debug", "info", "warning", "error"))
    return False


def _strip(stmts):
    return [s for s in stmts if not _is_doc(s) and not _is_logging(s)]


def _name(n):
    return n.id if isinstance(n, ast.Name) else None


def _new_local(where, node, nm, taken):
    if nm is None or nm in RESERVED or nm in taken:
        _err(where, node, "a local variable re-uses a name that is already bound")
    taken.add(nm)
    return nm


def _coq_list(items):
    return "[" + "; ".join(items) + "]"


def _coq_str(s):
    if '"' in s or "\\" in s or any(ord(c) < 32 or ord(c) > 126 for c in s):
        raise TranslateError("string literal %r cannot be emitted" % s)
    return '"%s"' % s


# ---------------------------------------------------------------------------------------------
# cache.py: module and class level


def _check_module(tree):
    """imports, `logger = get_logger(..)`, exception aliases and the class; returns (class node, aliases)"""
    where = "cache.py module level"
    bound = {}
    aliases = dict(EXC)
    cls = None
    for st in tree.body:
        if _is_doc(st) or _is_logging(st):
            continue
        if isinstance(st, ast.Import):
            for a in st.names:
                nm = a.asname or a.name.split(".")[0]
                if nm in bound:
                    _err(where, st, "name imported twice")
                bound[nm] = a.name
        elif isinstance(st, ast.ImportFrom):
            for a in st.names:
                nm = a.asname or a.name
                if nm in bound or nm == "*":
                    _err(where, st, "name imported twice / star import")
                bound[nm] = "%s.%s" % (st.module, a.name)
        elif isinstance(st, ast.Assign) and len(st.targets) == 1 and _name(st.targets[0]) == "logger":
            if not (isinstance(st.value, ast.Call) and _name(st.value.func) == "get_logger"):
                _err(where, st, "logger is not a logger")
        elif (isinstance(st, ast.Assign) and len(st.targets) == 1 and _name(st.targets[0])
              and _name(st.value) in EXC and _name(st.targets[0]) not in RESERVED):
            aliases[_name(st.targets[0])] = EXC[_name(st.value)]  # e.g. _UNREADABLE = Exception
        elif (isinstance(st, ast.Assign) and len(st.targets) == 1 and _name(st.targets[0]) and isinstance(st.value, ast.Tuple)
              and st.value.elts and all(isinstance(e, (ast.Name, ast.Attribute)) for e in st.value.elts)
              and _name(st.targets[0]) not in RESERVED):
            aliases[_name(st.targets[0])] = "ENarrow"  # a tuple of exception classes
        elif isinstance(st, ast.ClassDef) and st.name == CLASS and cls is None:
            cls = st
        else:
            _err(where, st, "statement the model has no counterpart for")
    want = {"np": "numpy", "os": "os", "tempfile": "tempfile", "hashlib": "hashlib", "Path": "pathlib.Path"}
    for nm, mod in want.items():
        if bound.get(nm) != mod:
            raise TranslateError("%s: %s is not %s" % (where, nm, mod))
    for nm in bound:
        if nm in RESERVED and nm not in want or nm in EXC:
            raise TranslateError("%s: import shadows %s" % (where, nm))
    if cls is None:
        raise TranslateError("%s: class %s not found" % (where, CLASS))
    return cls, aliases


def _methods(cls):
    where = "class " + CLASS
    if cls.decorator_list or cls.keywords or [b for b in cls.bases if _name(b) != "object"]:
        _err(where, cls, "decorators / base classes")
    out = {}
    for st in cls.body:
        if _is_doc(st):
            continue
        if isinstance(st, ast.FunctionDef) and not st.decorator_list and st.name not in out:
            out[st.name] = st
        else:
            _err(where, st, "class-level statement the model has no counterpart for")
    want = {"__init__", "_compute_key", "get", "put", "clear"}
    if set(out) != want:
        raise TranslateError("%s: methods %s, expected %s (extra state or helpers are not modelled)" % (
            where, sorted(out), sorted(want)))
    return out


def _plain_args(where, fn, kwarg=False):
    """positional parameter names after self; no *args, no keyword-only; **kw only when kwarg"""
    a = fn.args
    if a.posonlyargs or a.vararg or a.kwonlyargs or (a.kwarg is not None) != kwarg:
        _err(where, fn, "unexpected parameter kinds")
    names = [x.arg for x in a.args]
    if not names or names[0] != "self":
        _err(where, fn, "first parameter is not self")
    if len(set(names)) != len(names) or set(names[1:]) & RESERVED:
        _err(where, fn, "parameter names")
    return names[1:], (a.kwarg.arg if kwarg else None)


def _tr_init(fn):
    where = "__init__"
    _plain_args(where, fn)
    body = _strip(fn.body)
    if not (len(body) == 2 and isinstance(body[0], ast.Assign) and len(body[0].targets) == 1
            and _is(body[0].targets[0], "self.cache_dir") and isinstance(body[0].value, ast.Call)
            and _name(body[0].value.func) == "Path" and len(body[0].value.args) == 1 and not body[0].value.keywords
            and _name(body[0].value.args[0]) == fn.args.args[1].arg
            and isinstance(body[1], ast.Expr) and _is(body[1].value, "self.cache_dir.mkdir(parents=True, exist_ok=True)")):
        for st in body:
            if not (isinstance(st, ast.Assign) and _is(st.targets[0], "self.cache_dir")) and not (
                    isinstance(st, ast.Expr) and _is(st.value, "self.cache_dir.mkdir(parents=True, exist_ok=True)")):
                _err(where, st, "state other than the cache directory")
        _err(where, fn.body[0], "not `self.cache_dir = Path(cache_dir); self.cache_dir.mkdir(parents=True, exist_ok=True)`")


def _tr_clear(fn):
    where = "clear"
    _plain_args(where, fn)
    globs = []
    counters = set()
    for st in _strip(fn.body):
        if isinstance(st, ast.Assign) and len(st.targets) == 1 and _name(st.targets[0]) and _is(st.value, "0"):
            counters.add(_new_local(where, st, _name(st.targets[0]), set(counters)))
        elif (isinstance(st, ast.For) and not st.orelse and _name(st.target) and isinstance(st.iter, ast.Call)
              and _is(st.iter.func, "self.cache_dir.glob") and len(st.iter.args) == 1 and not st.iter.keywords
              and isinstance(st.iter.args[0], ast.Constant) and isinstance(st.iter.args[0].value, str)):
            v = _name(st.target)
            if v in RESERVED or v in counters:
                _err(where, st, "loop variable")
            for b in _strip(st.body):
                if isinstance(b, ast.Expr) and _is(b.value, "%s.unlink()" % v):
                    continue
                if (isinstance(b, ast.AugAssign) and isinstance(b.op, ast.Add) and _name(b.target) in counters
                        and _is(b.value, "1")):
                    continue
                _err(where, b, "statement the model has no counterpart for")
            if not any(isinstance(b, ast.Expr) and _is(b.value, "%s.unlink()" % v) for b in st.body):
                _err(where, st, "loop does not unlink")
            globs.append(st.iter.args[0].value)
        else:
            _err(where, st, "statement the model has no counterpart for")
    return globs


# ---------------------------------------------------------------------------------------------
# _compute_key


def _key_param(where, node, params):
    nm = _name(node)
    if nm is None or nm not in params:
        _err(where, node, "the hashed expression is not a parameter of _compute_key")
    return KPARAM[nm]


def _method_call(node, attr, nargs=0):
    """node is <obj>.<attr>(<nargs positional>) -> (obj, args) else None"""
    if (isinstance(node, ast.Call) and isinstance(node.func, ast.Attribute) and node.func.attr == attr
            and len(node.args) == nargs and not node.keywords):
        return node.func.value, node.args
    return None


def _fn_call(node, fname, nargs=1):
    """node is <fname>(<nargs positional>) with fname a dotted name -> args else None"""
    if isinstance(node, ast.Call) and ast.unparse(node.func) == fname and len(node.args) == nargs and not node.keywords:
        return node.args
    return None


def _none_guard(node):
    """`None if P is None else E` -> (P, E) else None"""
    if (isinstance(node, ast.IfExp) and _is(node.body, "None") and isinstance(node.test, ast.Compare)
            and len(node.test.ops) == 1 and isinstance(node.test.ops[0], ast.Is) and _is(node.test.comparators[0], "None")
            and _name(node.test.left)):
        return node.test.left, node.orelse
    return None


def _repr_component(where, node, params):
    g = _none_guard(node)
    if g:
        p, e = g
        m = _method_call(e, "tolist")
        if m:
            a = _fn_call(m[0], "np.atleast_1d")
            if a and _name(a[0]) == _name(p):
                return _key_param(where, p, params), "CReprIntList"
        a = _fn_call(e, "tuple")
        if a and isinstance(a[0], ast.GeneratorExp) and len(a[0].generators) == 1:
            gen = a[0].generators[0]
            v = _name(gen.target)
            if (v and v not in RESERVED and v not in params and not gen.ifs and not gen.is_async
                    and _name(gen.iter) == _name(p) and _is(a[0].elt, "int(%s)" % v)):
                return _key_param(where, p, params), "CReprIntTuple"
        _err(where, node, "canonical form not known to the model")
    for f, c in (("bool", "CReprBool"), ("float", "CReprFloat")):
        a = _fn_call(node, f)
        if a:
            return _key_param(where, a[0], params), c
    _err(where, node, "canonical form not known to the model")


def _update_arg(where, node, params, tuples):
    """the argument of h.update(...) -> list of (kparam, canon)"""
    m = _method_call(node, "tobytes")
    if m:
        a = _fn_call(m[0], "np.asarray")
        if a:
            return [(_key_param(where, a[0], params), "CArrayBytes")]
        _err(where, node, "canonical form not known to the model")
    m = _method_call(node, "encode")
    if m:
        obj = m[0]
        a = _fn_call(obj, "str")
        if a:
            return [(_key_param(where, a[0], params), "CStr")]
        a = _fn_call(obj, "repr")
        if a:
            t = a[0]
            if _name(t) in tuples:
                t = tuples.pop(_name(t))  # used once
            if not isinstance(t, ast.Tuple):
                _err(where, node, "repr() of something that is not a tuple of canonical components")
            return [_repr_component(where, e, params) for e in t.elts]
        if _name(obj):
            return [(_key_param(where, obj, params), "CText")]
    _err(where, node, "canonical form not known to the model")


def _tr_compute_key(fn):
    where = "_compute_key"
    params, _ = _plain_args(where, fn)
    for p in params:
        if p not in KPARAM:
            _err(where, fn, "parameter %s is not a field of the model's request" % p)
    body = _strip(fn.body)
    if len(body) < 2:
        _err(where, fn, "empty body")
    st = body[0]
    if not (isinstance(st, ast.Assign) and len(st.targets) == 1 and _name(st.targets[0]) and _is(st.value, "hashlib.sha256()")):
        _err(where, st, "the first statement is not `<h> = hashlib.sha256()`")
    taken = set(params)
    h = _new_local(where, st, _name(st.targets[0]), taken)
    feeds = []
    tuples = {}
    for st in body[1:-1]:
        if isinstance(st, ast.Expr):
            m = _method_call(st.value, "update", 1)
            if not (m and _name(m[0]) == h):
                _err(where, st, "statement the model has no counterpart for")
            feeds += _update_arg(where, m[1][0], params, tuples)
        elif isinstance(st, ast.For) and not st.orelse and _name(st.target) and _name(st.iter) in params:
            v = _name(st.target)
            if v in RESERVED or v in taken:
                _err(where, st, "loop variable")
            b = _strip(st.body)
            ok = False
            if len(b) == 1 and isinstance(b[0], ast.Expr):
                m = _method_call(b[0].value, "update", 1)
                ok = bool(m and _name(m[0]) == h and _is(m[1][0], "np.asarray(%s).tobytes()" % v))
            if not ok:
                _err(where, st, "loop body is not `h.update(np.asarray(<item>).tobytes())`")
            feeds.append((KPARAM[_name(st.iter)], "CEachArrayBytes"))
        elif (isinstance(st, ast.Assign) and len(st.targets) == 1 and _name(st.targets[0])
              and isinstance(st.value, ast.Tuple)):
            tuples[_new_local(where, st, _name(st.targets[0]), taken)] = st.value
        else:
            _err(where, st, "statement the model has no counterpart for")
    if tuples:
        raise TranslateError("%s: tuple %s is built but not hashed" % (where, sorted(tuples)))
    st = body[-1]
    if not (isinstance(st, ast.Return) and st.value is not None and _is(st.value, "%s.hexdigest()" % h)):
        _err(where, st, "the last statement is not `return <h>.hexdigest()`")
    return params, feeds


# ---------------------------------------------------------------------------------------------
# get / put


def _tr_key_and_path(where, body, own, kw, key_params, taken):
    """`key = self._compute_key(<own positional>, **extra)`; `path = self.cache_dir / f"{key}.npz"`
    -> (forwarded kparams in the order of the own parameters, key name, path name, remaining statements)"""
    if len(body) < 2:
        raise TranslateError("%s: body too short" % where)
    st = body[0]
    if not (isinstance(st, ast.Assign) and len(st.targets) == 1 and _name(st.targets[0]) and isinstance(st.value, ast.Call)
            and _is(st.value.func, "self._compute_key")):
        _err(where, st, "the first statement is not `<key> = self._compute_key(...)`")
    call = st.value
    if not (len(call.keywords) == 1 and call.keywords[0].arg is None and _name(call.keywords[0].value) == kw):
        _err(where, st, "keyword arguments are not forwarded as **%s" % kw)
    if len(call.args) > len(key_params):
        _err(where, st, "more positional arguments than _compute_key has parameters")
    fwd = {}
    for j, a in enumerate(call.args):
        nm = _name(a)
        if nm not in own or nm in fwd:
            _err(where, st, "argument %d of _compute_key is not one of the method's own parameters, passed once and unchanged" % j)
        if key_params[j] not in KPARAM:
            _err(where, st, "unknown key parameter")
        fwd[nm] = KPARAM[key_params[j]]
    key = _new_local(where, st, _name(st.targets[0]), taken)
    st = body[1]
    ok = (isinstance(st, ast.Assign) and len(st.targets) == 1 and _name(st.targets[0])
          and _is(st.value, 'self.cache_dir / f"{%s}.npz"' % key))
    if not ok:
        _err(where, st, "the second statement is not `<path> = self.cache_dir / f\"{<key>}.npz\"`")
    path = _new_local(where, st, _name(st.targets[0]), taken)
    return fwd, key, path, body[2:]


def _handler_exc(where, h, aliases):
    if h.name is not None and h.name in RESERVED:
        _err(where, h, "exception variable")
    if h.type is None:
        return "EBaseException"
    nm = _name(h.type)
    if nm in aliases:
        return aliases[nm]
    return "ENarrow"  # a tuple of classes or any other class: narrower than Exception


def _unlink_ignoring(where, st, target_src, aliases):
    """try: <target_src>  except <E>: pass   -> exc class else None"""
    if (isinstance(st, ast.Try) and len(st.body) == 1 and isinstance(st.body[0], ast.Expr)
            and _is(st.body[0].value, target_src) and len(st.handlers) == 1 and not st.orelse and not st.finalbody
            and len(st.handlers[0].body) == 1 and isinstance(st.handlers[0].body[0], ast.Pass)):
        return _handler_exc(where, st.handlers[0], aliases)
    return None


def _member(node, data):
    if (isinstance(node, ast.Subscript) and _name(node.value) == data and isinstance(node.slice, ast.Constant)
            and isinstance(node.slice.value, str)):
        return node.slice.value
    return None


def _tr_get(fn, key_params, aliases):
    where = "get"
    own, kw = _plain_args(where, fn, kwarg=True)
    taken = set(own) | {kw}
    fwd, key, path, rest = _tr_key_and_path(where, _strip(fn.body), own, kw, key_params, taken)
    if set(fwd) != set(own):
        raise TranslateError("%s: parameters %s do not reach _compute_key" % (where, sorted(set(own) - set(fwd))))
    st8 = {"members": None, "result": None}

    def load_block(st):
        """with np.load(path) as data: <assignments building result from data["..."]>"""
        if not (isinstance(st, ast.With) and len(st.items) == 1 and _is(st.items[0].context_expr, "np.load(%s)" % path)
                and _name(st.items[0].optional_vars)):
            _err(where, st, "the try body is not `with np.load(<path>) as <data>:`")
        data = _new_local(where, st, _name(st.items[0].optional_vars), taken)
        env = {}

        def val(n):
            m = _member(n, data)
            if m is not None:
                return ("m", m)
            if _name(n) in env:
                return env[_name(n)]
            if isinstance(n, ast.Tuple):
                return ("t", [val(e) for e in n.elts])
            _err(where, n, "the answer is not assembled from plain members data[\"name\"]")

        last = None
        for b in _strip(st.body):
            if not (isinstance(b, ast.Assign) and len(b.targets) == 1 and _name(b.targets[0])):
                _err(where, b, "statement the model has no counterpart for")
            nm = _name(b.targets[0])
            if nm in RESERVED or nm in taken and nm not in env:
                _err(where, b, "a local variable re-uses a name that is already bound")
            env[nm] = val(b.value)
            taken.add(nm)
            last = nm
        if last is None:
            _err(where, st, "nothing is loaded")
        v = env[last]
        members = []
        try:
            assert v[0] == "t" and len(v[1]) == 3 and v[1][0][0] == "t" and len(v[1][0][1]) == 3
            for i in range(3):
                assert v[1][0][1][i][0] == "m"
                members.append((SLOTS[(0, i)], v[1][0][1][i][1]))
            for i in (1, 2):
                assert v[1][i][0] == "m"
                members.append((SLOTS[(i,)], v[1][i][1]))
        except AssertionError:
            _err(where, st, "the loaded answer does not have the shape ((X, Y, Z), conc, flx)")
        if st8["members"] is not None:
            _err(where, st, "the entry is loaded twice")
        st8["members"], st8["result"] = members, last

    def stmts(ss):
        out = []
        for st in ss:
            out.append(stmt(st))
        return "(gseq %s)" % _coq_list(out)

    def stmt(st):
        if isinstance(st, ast.If) and not st.orelse and _is(st.test, "%s.exists()" % path):
            return "GIfExists %s" % stmts(_strip(st.body))
        e = _unlink_ignoring(where, st, "%s.unlink()" % path, aliases)
        if e:
            return "GUnlink %s" % e
        if isinstance(st, ast.Try) and not st.finalbody and len(st.handlers) == 1 and len(st.body) == 1:
            load_block(st.body[0])
            e = _handler_exc(where, st.handlers[0], aliases)
            return "GTryLoad %s %s %s" % (e, stmts(_strip(st.handlers[0].body)), stmts(_strip(st.orelse)))
        if isinstance(st, ast.Return) and st.value is not None and st8["result"] and _name(st.value) == st8["result"]:
            return "GReturnLoaded"
        if isinstance(st, ast.Return) and (st.value is None or _is(st.value, "None")):
            return "GReturnNone"
        if isinstance(st, ast.Pass):
            return "GSkip"
        _err(where, st, "statement the model has no counterpart for")

    flow = "(gseq %s)" % _coq_list(["GKey", "GPath"] + [stmt(s) for s in rest])
    if st8["members"] is None:
        raise TranslateError("%s: no entry is loaded" % where)
    return [fwd[p] for p in own], flow, st8["members"]


def _tr_put(fn, key_params, aliases):
    where = "put"
    own, kw = _plain_args(where, fn, kwarg=True)
    taken = set(own) | {kw}
    fwd, key, path, rest = _tr_key_and_path(where, _strip(fn.body), own, kw, key_params, taken)
    n = len(fwd)
    if set(own[:n]) != set(fwd) or len(own) != n + 3:
        raise TranslateError("%s: the parameters after the forwarded ones are not the three parts (grid, conc, flx) "
                             "of a result: %s" % (where, own))
    # values: position inside the result ((X, Y, Z), conc, flx) a local name holds
    env = {own[n]: (0,), own[n + 1]: (1,), own[n + 2]: (2,)}
    roles = {"fd": None, "tmp": None}
    members = []

    def savez(node, target):
        """np.savez(<target>, name=<local>, ...)"""
        if not (isinstance(node, ast.Call) and ast.unparse(node.func) == "np.savez" and len(node.args) == 1
                and _name(node.args[0]) == target and node.keywords):
            return False
        if members:
            _err(where, node, "the entry is written twice")
        for k in node.keywords:
            pos = env.get(_name(k.value))
            if k.arg is None or pos not in SLOTS:
                _err(where, node, "member %s does not store one part of the result unchanged" % k.arg)
            members.append((k.arg, SLOTS[pos]))
        return True

    def stmts(ss):
        return "(pseq %s)" % _coq_list([stmt(s) for s in ss])

    def stmt(st):
        # X, Y, Z = grid
        if (isinstance(st, ast.Assign) and len(st.targets) == 1 and isinstance(st.targets[0], ast.Tuple)
                and _name(st.value) == own[n] and len(st.targets[0].elts) == 3 and all(_name(e) for e in st.targets[0].elts)):
            for i, e in enumerate(st.targets[0].elts):
                env[_new_local(where, st, _name(e), taken)] = (0, i)
            return "PUnpackGrid"
        # fd, tmp = tempfile.mkstemp(dir=self.cache_dir, prefix=key, suffix=".tmp")
        if (isinstance(st, ast.Assign) and len(st.targets) == 1 and isinstance(st.targets[0], ast.Tuple)
                and len(st.targets[0].elts) == 2 and all(_name(e) for e in st.targets[0].elts)
                and isinstance(st.value, ast.Call) and ast.unparse(st.value.func) == "tempfile.mkstemp" and not st.value.args):
            if roles["fd"]:
                _err(where, st, "second temporary file")
            kws = {k.arg: k.value for k in st.value.keywords}
            if None in kws or set(kws) - {"dir", "prefix", "suffix"}:
                _err(where, st, "unexpected mkstemp arguments")
            roles["fd"] = _new_local(where, st, _name(st.targets[0].elts[0]), taken)
            roles["tmp"] = _new_local(where, st, _name(st.targets[0].elts[1]), taken)
            flags = ("dir" in kws and _is(kws["dir"], "self.cache_dir"), "prefix" in kws and _name(kws["prefix"]) == key,
                     "suffix" in kws and _is(kws["suffix"], "'.tmp'"))
            return "PMkstemp %s" % " ".join("true" if f else "false" for f in flags)
        if roles["tmp"]:
            e = _unlink_ignoring(where, st, "os.unlink(%s)" % roles["tmp"], aliases)
            if e:
                return "PUnlinkTmp %s" % e
        if isinstance(st, ast.Try) and not st.finalbody and not st.orelse and len(st.handlers) == 1:
            e = _handler_exc(where, st.handlers[0], aliases)
            return "PTry %s %s %s" % (stmts(_strip(st.body)), e, stmts(_strip(st.handlers[0].body)))
        # with os.fdopen(fd, "wb") as f: np.savez(f, ...)
        if (isinstance(st, ast.With) and len(st.items) == 1 and roles["fd"]
                and _is(st.items[0].context_expr, "os.fdopen(%s, 'wb')" % roles["fd"]) and _name(st.items[0].optional_vars)):
            f = _new_local(where, st, _name(st.items[0].optional_vars), taken)
            b = _strip(st.body)
            if len(b) == 1 and isinstance(b[0], ast.Expr) and savez(b[0].value, f):
                return "PSavezTmp"
            _err(where, st, "the with body is not one np.savez(<file>, ...)")
        if isinstance(st, ast.Expr) and savez(st.value, path):
            return "PSavezFinal"
        if isinstance(st, ast.Expr) and roles["tmp"] and _is(st.value, "os.replace(%s, %s)" % (roles["tmp"], path)):
            return "PReplace"
        if isinstance(st, ast.Raise) and st.exc is None and st.cause is None:
            return "PReraise"
        if isinstance(st, ast.Pass):
            return "PSkip"
        _err(where, st, "statement the model has no counterpart for")

    flow = "(pseq %s)" % _coq_list(["PKey", "PPath"] + [stmt(s) for s in rest])
    if not members:
        raise TranslateError("%s: nothing is written" % where)
    return [fwd[p] for p in own[:n]], flow, members


# ---------------------------------------------------------------------------------------------
# solver.py: the cache block of steady_state_transport_solver


def _stores(stmts):
    """names re-bound, and names whose object may be changed in place, by the statements"""
    rebound, mutated = set(), set()

    def base(t):
        while isinstance(t, (ast.Subscript, ast.Attribute, ast.Starred)):
            t = t.value
        return _name(t)

    for st in stmts:
        for n in ast.walk(st):
            if isinstance(n, ast.Name) and isinstance(n.ctx, (ast.Store, ast.Del)):
                rebound.add(n.id)
            elif isinstance(n, (ast.Subscript, ast.Attribute)) and isinstance(n.ctx, (ast.Store, ast.Del)):
                mutated.add(base(n))
            elif isinstance(n, ast.AugAssign):
                mutated.add(base(n.target))
            elif isinstance(n, (ast.Global, ast.Nonlocal)):
                rebound.update(n.names)
            elif isinstance(n, ast.Call) and isinstance(n.func, ast.Attribute) and isinstance(n.func.value, ast.Name):
                if n.func.attr in ("sort", "fill", "resize", "put", "itemset", "setfield", "setflags", "partition",
                                   "append", "extend", "insert", "pop", "remove", "clear", "update", "reverse", "byteswap"):
                    mutated.add(n.func.value.id)
    return rebound, mutated


def _aliases_of(stmts, protected):
    """local names bound (one level) to a protected object or to its components"""
    al = set()
    for st in stmts:
        if isinstance(st, ast.Assign) and _name(st.value) in protected:
            for t in st.targets:
                for e in (t.elts if isinstance(t, ast.Tuple) else [t]):
                    if _name(e):
                        al.add(_name(e))
    return al


def _tr_solver(fn):
    where = SOLVER
    a = fn.args
    if a.posonlyargs or a.vararg or a.kwonlyargs or a.kwarg:
        _err(where, fn, "unexpected parameter kinds")
    params = [x.arg for x in a.args]
    if set(params) != set(SARG) | {"cache"} or len(params) != len(set(params)):
        raise TranslateError("%s: parameters %s are not the fields of the model's request plus `cache`" % (where, params))
    body = _strip(fn.body)
    rebound_so_far = set()
    roles = {"extra": None, "cached": None, "get_pos": None, "put_pos": None}
    flow = []
    solve_body = []
    seen_get = seen_put = False

    def sarg(node):
        if _is(node, "np.shape(srf_flx)"):
            if "srf_flx" in rebound_so_far:
                _err(where, node, "srf_flx is re-bound before it is used as a key argument")
            return "AShape"
        nm = _name(node)
        if nm in SARG:
            if nm in rebound_so_far - {"halo"}:
                _err(where, node, "%s is re-bound before it is used as a key argument" % nm)
            return SARG[nm]
        _err(where, node, "key argument is not an unchanged argument of the solver")

    def guard(test):
        vals = test.values if isinstance(test, ast.BoolOp) and isinstance(test.op, ast.And) else [test]
        out = []
        for v in vals:
            if _is(v, "cache is not None"):
                out.append("CCacheNotNone")
            elif _is(v, "footprint"):
                out.append("CFootprint")
            else:
                return None
        return out

    def mentions_cache(st):
        names = {n.id for n in ast.walk(st) if isinstance(n, ast.Name)}
        return bool(names & ({"cache"} | {r for r in (roles["extra"], roles["cached"]) if r}))

    def cache_call(node, meth):
        if (isinstance(node, ast.Call) and isinstance(node.func, ast.Attribute) and _name(node.func.value) == "cache"
                and node.func.attr == meth):
            return node
        return None

    def block(ss):
        out = []
        for st in ss:
            # cache_extra = dict(k=<expr>, ...)
            if (isinstance(st, ast.Assign) and len(st.targets) == 1 and _name(st.targets[0]) and isinstance(st.value, ast.Dict)
                    and all(isinstance(k, ast.Constant) and isinstance(k.value, str) for k in st.value.keys)):
                # (the module is read through harness/astnorm.py: `dict(k=<expr>, ...)` arrives here as the display {'k': <expr>, ...})
                if roles["extra"]:
                    _err(where, st, "the keyword dict is built twice")
                nm = _name(st.targets[0])
                if nm in RESERVED or nm in params:
                    _err(where, st, "name of the keyword dict")
                kws = []
                if len({k.value for k in st.value.keys}) != len(st.value.keys):
                    _err(where, st, "a key occurs twice in the keyword dict")
                for k, v in zip(st.value.keys, st.value.values):
                    if k.value not in KPARAM:
                        _err(where, st, "keyword %s is not a parameter of _compute_key" % k.value)
                    kws.append("(%s, %s)" % (KPARAM[k.value], sarg(v)))
                roles["extra"] = nm
                out.append("SExtra %s" % _coq_list(kws))
                continue
            # cached = cache.get(<pos>, **cache_extra)
            if isinstance(st, ast.Assign) and len(st.targets) == 1 and _name(st.targets[0]) and cache_call(st.value, "get"):
                c = st.value
                if not (roles["extra"] and len(c.keywords) == 1 and c.keywords[0].arg is None
                        and _name(c.keywords[0].value) == roles["extra"]) or roles["cached"]:
                    _err(where, st, "cache.get is not called once with (<positional>, **<the keyword dict>)")
                nm = _name(st.targets[0])
                if nm in RESERVED or nm in params or nm == roles["extra"]:
                    _err(where, st, "name of the looked-up answer")
                roles["cached"] = nm
                out.append("SGet %s" % _coq_list([sarg(x) for x in c.args]))
                continue
            # if cached is not None: return cached
            if (isinstance(st, ast.If) and roles["cached"] and not st.orelse and _is(st.test, "%s is not None" % roles["cached"])):
                b = _strip(st.body)
                if len(b) == 1 and isinstance(b[0], ast.Return) and _name(b[0].value) == roles["cached"]:
                    out.append("SIfHitReturn")
                    continue
                _err(where, st, "a hit does not return the cached answer unchanged")
            # cache.put(<pos>, *result, **cache_extra)
            if isinstance(st, ast.Expr) and cache_call(st.value, "put"):
                c = st.value
                pos = c.args
                if not (roles["extra"] and len(c.keywords) == 1 and c.keywords[0].arg is None
                        and _name(c.keywords[0].value) == roles["extra"] and pos and isinstance(pos[-1], ast.Starred)
                        and _name(pos[-1].value) == "result"):
                    _err(where, st, "cache.put is not called with (<positional>, *result, **<the keyword dict>)")
                out.append("SPut %s" % _coq_list([sarg(x) for x in pos[:-1]]))
                continue
            _err(where, st, "statement of the cache block the model has no counterpart for")
        return "(sseq %s)" % _coq_list(out)

    i = 0
    n = len(body)
    closed = False
    body_done = False
    while i < n:
        st = body[i]
        i += 1
        if closed:
            _err(where, st, "statement after `return result`")
        inner = _strip(st.body) if isinstance(st, ast.If) else []
        if (isinstance(st, ast.If) and not st.orelse and _is(st.test, "halo is None") and len(inner) == 1
                and isinstance(inner[0], ast.Assign) and len(inner[0].targets) == 1 and _is(inner[0].targets[0], "halo")
                and _is(inner[0].value, "max(domain)")):
            if solve_body or "halo" in rebound_so_far or "domain" in rebound_so_far:
                _err(where, st, "halo is resolved after other statements have run")
            flow.append("SResolveHalo")
            rebound_so_far.add("halo")
            continue
        if isinstance(st, ast.If) and not st.orelse and mentions_cache(st):
            g = guard(st.test)
            if g is None:
                _err(where, st, "guard of the cache block is not a conjunction of `cache is not None` and `footprint`")
            if "footprint" in rebound_so_far or "cache" in rebound_so_far:
                _err(where, st, "guard operand is re-bound")
            if solve_body and not body_done:
                flow.append("SBody")
                body_done = True
            flow.append("SIf %s %s" % (_coq_list(g), block(inner)))
            continue
        if isinstance(st, ast.Return) and _name(st.value) == "result" and i == n:
            if solve_body and not body_done:
                flow.append("SBody")
                body_done = True
            flow.append("SReturnResult")
            closed = True
            continue
        if mentions_cache(st):
            _err(where, st, "the cache is used outside the guarded blocks")
        if body_done:
            _err(where, st, "statement between the store and `return result`")
        solve_body.append(st)
        rb, mt = _stores([st])
        rebound_so_far.update(rb)
    return flow, solve_body


def _check_body(body):
    """the numerical body: binds `result` to a triple whose first part is a triple; contains no return; does not
    re-bind or change in place the solver arguments that are read again by cache.put"""
    where = SOLVER + " body"
    if not body:
        raise TranslateError("%s: empty" % where)
    for st in body:
        for nd in ast.walk(st):
            if isinstance(nd, (ast.Return, ast.Yield, ast.YieldFrom, ast.Await, ast.Lambda, ast.FunctionDef, ast.ClassDef,
                               ast.Global, ast.Nonlocal)):
                _err(where, st, "return / nested definition inside the body")
    last = body[-1]
    if not (isinstance(last, ast.Assign) and len(last.targets) == 1 and _name(last.targets[0]) == "result"
            and isinstance(last.value, ast.Tuple) and len(last.value.elts) == 3):
        _err(where, last, "the body does not end with `result = (<grid>, <conc>, <flx>)`")
    g = last.value.elts[0]
    if _name(g):
        defs = [s for s in body if isinstance(s, ast.Assign) and len(s.targets) == 1 and _name(s.targets[0]) == _name(g)]
        g = defs[-1].value if defs else None
    if not (isinstance(g, ast.Tuple) and len(g.elts) == 3):
        _err(where, last, "the first part of result is not a triple (X, Y, Z)")
    if sum(1 for s in body for nd in ast.walk(s) if isinstance(nd, ast.Name) and nd.id == "result"
           and isinstance(nd.ctx, ast.Store)) != 1:
        _err(where, last, "result is bound more than once")


def _tr_solver_checked(fn):
    flow, all_body = _tr_solver(fn)
    if flow.count("SBody") != 1 or flow[-1] != "SReturnResult":
        raise TranslateError("%s: the numerical body is not one block followed by `return result`" % SOLVER)
    _check_body(all_body)
    # arguments read again when the entry is stored: positional arguments of cache.put; the keyword dict is
    # evaluated once (before the body) but holds the argument OBJECTS
    protected_rebind = {"z", "profiles", "domain", "modes", "meas_pt", "halo", "precision"}
    protected_mutate = protected_rebind | {"levels", "srf_flx"}
    rebound, mutated = _stores(all_body)
    bad = rebound & protected_rebind
    if bad:
        raise TranslateError("%s body: re-binds %s, which cache.put reads again" % (SOLVER, sorted(bad)))
    # a re-bound alias no longer refers to the argument: only names that are never re-bound count
    al = {x for x in _aliases_of(all_body, protected_mutate)
          if sum(1 for s in all_body for nd in ast.walk(s) if isinstance(nd, ast.Name) and nd.id == x
                 and isinstance(nd.ctx, ast.Store)) == 1}
    keep = {x for x in protected_mutate if x not in rebound}
    bad = mutated & (keep | al)
    if bad:
        raise TranslateError("%s body: changes %s in place (a key argument or an alias of one)" % (SOLVER, sorted(bad)))
    return "(sseq %s)" % _coq_list(flow)


# ---------------------------------------------------------------------------------------------


def find_function(tree, name):
    for st in tree.body:
        if isinstance(st, ast.FunctionDef) and st.name == name:
            return st
    raise TranslateError("function %s not found" % name)


def translate(src):
    """src: the directory that contains the package bldfm.  Returns the text of GenCache.v; raises TranslateError
    naming every part that failed closed."""
    errors = []
    out = {}

    def part(name, f):
        try:
            out[name] = f()
        except TranslateError as e:
            errors.append(str(e))
        except Exception as e:  # fail closed on anything unforeseen
            errors.append("%s: %s: %s" % (name, type(e).__name__, e))

    cache_py = os.path.join(src, "bldfm", "cache.py")
    solver_py = os.path.join(src, "bldfm", "solver.py")
    try:
        ctree = ast.parse(open(cache_py).read())
        cls, aliases = _check_module(ctree)
        meth = _methods(cls)
    except TranslateError as e:
        errors.append(str(e))
        meth = None
        try:  # still report what else does not translate
            cls = [s for s in ctree.body if isinstance(s, ast.ClassDef) and s.name == CLASS][0]
            meth = {s.name: s for s in cls.body if isinstance(s, ast.FunctionDef)}
            aliases = dict(EXC)
            for st in ctree.body:
                if isinstance(st, ast.Assign) and _name(st.targets[0]) and _name(st.value) in EXC:
                    aliases[_name(st.targets[0])] = EXC[_name(st.value)]
        except Exception:
            meth = None
    except Exception as e:
        errors.append("cache.py: %s: %s" % (type(e).__name__, e))
        meth = None
    if meth:
        for nm in ("__init__", "_compute_key", "get", "put", "clear"):
            if nm not in meth:
                errors.append("cache.py: method %s not found" % nm)
        if "__init__" in meth:
            part("init", lambda: _tr_init(meth["__init__"]))
        if "clear" in meth:
            part("clear", lambda: _tr_clear(meth["clear"]))
        if "_compute_key" in meth:
            part("key", lambda: _tr_compute_key(meth["_compute_key"]))
        kp = out["key"][0] if "key" in out else list(KPARAM)
        if "get" in meth:
            part("get", lambda: _tr_get(meth["get"], kp, aliases))
        if "put" in meth:
            part("put", lambda: _tr_put(meth["put"], kp, aliases))
    try:
        import astnorm
        stree = astnorm.parse(open(solver_py).read())  # dict(k=v) is read as {'k': v}
        sfn = find_function(stree, SOLVER)
        part("solver", lambda: _tr_solver_checked(sfn))
    except TranslateError as e:
        errors.append(str(e))
    except Exception as e:
        errors.append("solver.py: %s: %s" % (type(e).__name__, e))
    if errors:
        raise TranslateError("; ".join(errors))

    key_params, feeds = out["key"]
    gps, gflow, gmem = out["get"]
    pps, pflow, pmem = out["put"]
    lines = [
        "(* generated by harness/py2coq_cache.py from bldfm/cache.py and bldfm/solver.py -- do not edit *)",
        "From Coq Require Import List Bool String.",
        "From BL Require Import Model.Cache Model.CacheFlow.",
        "Import ListNotations.",
        "Local Open Scope string_scope.",
        "",
        "(* _compute_key(%s) *)" % ", ".join(key_params),
        "Definition gen_key_feeds : list (kparam * canon) :=\n  %s." % _coq_list("(%s, %s)" % f for f in feeds),
        "",
        "Definition gen_get_params : list kparam := %s." % _coq_list(gps),
        "Definition gen_get_flow : gflow :=\n  %s." % gflow,
        "Definition gen_get_members : list (slot * string) :=\n  %s." % _coq_list(
            "(%s, %s)" % (s, _coq_str(m)) for s, m in gmem),
        "",
        "Definition gen_put_params : list kparam := %s." % _coq_list(pps),
        "Definition gen_put_flow : pflow :=\n  %s." % pflow,
        "Definition gen_put_members : list (string * slot) :=\n  %s." % _coq_list(
            "(%s, %s)" % (_coq_str(m), s) for m, s in pmem),
        "",
        "Definition gen_clear_globs : list string := %s." % _coq_list(_coq_str(g) for g in out["clear"]),
        "",
        "Definition gen_solver_cache_flow : sflow :=\n  %s." % out["solver"],
        "",
        "(* the request fields that reach the hash at the lookup / at the store *)",
        "Definition gen_key_fields : option (list field) :=",
        "  get_key_fields gen_key_feeds gen_get_params gen_put_params gen_solver_cache_flow.",
        "Definition gen_put_key_fields : option (list field) :=",
        "  put_key_fields gen_key_feeds gen_get_params gen_put_params gen_solver_cache_flow.",
        "",
    ]
    return "\n".join(lines)


N_TERMS = 11  # definitions emitted into GenCache.v


def run(ctx):
    """translate the current source, compile GenCache.v, re-prove coq/Bridge/CacheBridge.v against it (one obligation
    per lemma), and check that every bridge lemma is closed under the global context"""
    import re

    import core

    try:
        text = translate(core.SRC)
    except TranslateError as e:
        ctx.obligation("gen:GenCache.v", False, "cache translator failed closed: %s" % e)
        return False
    ctx.cov["cache_terms_translated"] = N_TERMS
    if not core.run_bridge(ctx, {"GenCache.v": text}, ["CacheBridge.v"]):
        return False
    src = core.strip_coq_comments(open(os.path.join(core.COQ, "Bridge", "CacheBridge.v")).read())
    names = re.findall(r"^\s*(?:Lemma|Theorem)\s+([\w']+)", src, re.M)
    ax = "From Gen Require Import CacheBridge.\n" + "".join(
        'Goal True. idtac "THEOREM %s". Abort. Print Assumptions %s.\n' % (n, n) for n in names)
    rc, out, err, dt = ctx.coqc(ctx.write("CacheBridgeAx.v", ax))
    got = core.parse_assumptions(out + "\n" + err)
    bad = ["%s: %s" % (n, sorted(got[n]) if isinstance(got.get(n), set) else got.get(n, "missing"))
           for n in names if got.get(n) != set()]
    ctx.obligation("closed:CacheBridge", rc == 0 and not bad,
                   "" if rc == 0 and not bad else "bridge lemmas not closed under the global context: %s %s" % (
                       "; ".join(bad), (out + err)[-600:] if rc else ""))
    return rc == 0 and not bad


if __name__ == "__main__":
    import sys

    print(translate(sys.argv[1] if len(sys.argv) > 1 else "/repo/src"))
