"""Fail-closed translator for the command-line driver bldfm/cli.py (tie B of property C16, with C14's driver fragment).

Reads the CURRENT source of `cmd_run` and `_save_plots` with `ast` and emits Gallina (`GenCli.v`, regenerated on every
run) over the abstract world of coq/Model/Cli.v.  `coq/Bridge/CliBridge.v` then re-proves, for ALL worlds and all
arguments (any towers list, duplicates and the empty list included; any step count, 0 included; dry run or not; plot
or not; load_config raising or not), that the generated functions equal the hand-written model `Cli.cmd_run` /
`Cli.save_plots`.

The expression / loop fragment is the one of harness/py2coq_drivers.py (its Translator is sub-classed; its behaviour
for interface.py is untouched): `x = e`, `xs.append(e)`, `for` as a left fold over the re-bound variables, list
comprehensions as map / flat_map, `range(n)`, `len`, `+`, `*`, tuples, slices.  Added for cli.py:

    config = load_config(args.config)        match w_load W (a_config args) with None => <the state so far, not loaded>
                                             | Some config => ... end                       (None: load_config raises)
    if <args.flag>: <logging only>; return   if <flag> then <the state so far> else ...
    from . import config as M                M names the module bldfm.config
    M.NUM_THREADS / MAX_WORKERS / USE_CACHE = config.parallel.<field>
                                             let w_rt := rt_set_<...> (w_par_<field> W config) w_rt in      (top level only)
    run_bldfm_single(config, tower, met_index=e)
                                             w_single W w_rt config tower e: the run is made UNDER the settings stored so
                                             far; every such call is also appended to the hidden call log w_calls (the
                                             call may only stand where the log can follow it: `x = run(..)`,
                                             `xs.append(run(..))`, or as the element of a list comprehension assigned to a name)
    if <args.flag>: _save_plots(xs, logger)  let w_plots := if <flag> then w_plots ++ gen_save_plots W xs else w_plots in
    result["key"]                            w_item W result "key"
    f"lit{a}lit{b}lit"                       ("lit" ++ w_str W a ++ "lit" ++ w_str W b ++ "lit")%string  (no conversion / format spec)
    a, b = <datum>                           let '(a, b) := w_unpack2 W <datum> in
  in _save_plots:
    fig, ax = plt.subplots()                 a fresh figure (one live figure at a time)
    plot_footprint_field(f, g, ax=ax, ...)   let w_fld := f in let w_grd := g in       (other keywords: side-effect free, ignored)
    ax.plot(x, y, <style>)                   let w_mrk := (x, y) in
    fig.savefig(name, ...)                   let w_plots := w_plots ++ [mkPlot name w_fld w_grd w_mrk] in
    plt.close(fig)                           the figure is gone
The value of cmd_run is the outcome `mkOut <loaded> w_rt w_calls w_plots` at the point where the function returns.

Ignored for the value, and nothing else: docstrings; `initialize()`; `X = get_logger("...")`; calls `X.debug/info/warning/
error(...)` on such a logger with side-effect-free arguments (attribute reads, constant-key subscripts, f-strings);
`for` loops that contain nothing but such logging; in _save_plots the set-up statements `import matplotlib`,
`matplotlib.use("Agg")`, `import matplotlib.pyplot as plt`, `from .plotting import plot_footprint_field`,
`os.makedirs("plots", exist_ok=True)`.
ANYTHING else - try/except, break/continue, a filter, `sorted`, `set`, a dict of results, `range(a, b)`, `n - 1`, a store of
something that is not a field of config.parallel, a store inside a loop, a run whose result is dropped, a decorator, a
module-level re-binding of the functions involved - raises TranslateError: the obligation gen:GenCli.v fails and the check
goes on to search for a failing input."""
import ast
import os

import py2coq_drivers as D
from py2coq import TranslateError
from py2coq_drivers import CFG, LIST, NAT, RES, TOWER, err, unify

FUNCS = ["cmd_run", "_save_plots"]
ARGS, PATH, BOOL, DATUM, FSTR, SETTING = ("args",), ("path",), ("bool",), ("datum",), ("fstring",), ("setting",)
RTMOD, LOGGER, FIG, AX, PLTMOD, MPLMOD, PLOTFN, PLOT = ("rtmod",), ("logger",), ("fig",), ("ax",), ("pltmod",), ("mplmod",), ("plotfn",), ("plot",)
NOT_VALUES = ("rtmod", "logger", "fig", "ax", "pltmod", "mplmod", "plotfn", "args")

RT_ATTRS = {"NUM_THREADS": "rt_set_num_threads", "MAX_WORKERS": "rt_set_max_workers", "USE_CACHE": "rt_set_use_cache"}
PAR_FIELDS = ("num_threads", "max_workers", "use_cache")
ARG_FIELDS = {"config": ("(a_config %s)", PATH), "dry_run": ("(a_dry_run %s)", BOOL), "plot": ("(a_plot %s)", BOOL)}

RESERVED = set(D.RESERVED) | {
    "V", "D", "Path", "rt", "rt0", "mkRt", "mkOut", "mkPlot", "mkArgs", "mkWorld", "plot", "outcome", "cli_args", "trace", "string",
    "a_config", "a_dry_run", "a_plot", "rt_num_threads", "rt_max_workers", "rt_use_cache", "rt_set_num_threads", "rt_set_max_workers",
    "rt_set_use_cache", "o_loaded", "o_rt", "o_results", "o_plots", "p_file", "p_field", "p_grid", "p_marker", "configured_rt",
    "runs_of", "results_of", "plot_name_of", "plot_of", "save_plots", "cmd_run", "cli_runs", "List", "fst", "snd", "app", "map",
    "flat_map", "fold_left", "seq", "length", "bool", "negb", "String", "EmptyString", "Ascii", "append",
}


def tystr(k):
    tag = k[0]
    if tag == "datum":
        return "D"
    if tag == "fstring":
        return "string"
    if tag == "setting":
        return "V"
    if tag == "bool":
        return "bool"
    if tag == "path":
        return "Path"
    if tag == "plot":
        return "plot D"
    if tag in ("list", "gen") and k[1] is not None:
        return "list (%s)" % tystr(k[1])
    if tag == "tuple":
        return "(" + " * ".join(tystr(x) for x in k[1:]) + ")"
    return D.tystr(k)


class Env(D.Env):
    def copy(self):
        return Env(self.kinds, self.pools, self.consumed)

    def bind(self, node, name, kind):
        if name in RESERVED:
            err(node, "the variable name %r collides with the generated code" % name)
        D.Env.bind(self, node, name, kind)


def _const_str(node):
    return isinstance(node, ast.Constant) and type(node.value) is str


def _pure(node, env):
    """side-effect-free expression: may stand in a logging call or as an ignored style argument"""
    if isinstance(node, ast.Constant):
        return True
    if isinstance(node, ast.Name):
        return env.kinds.get(node.id, ("?",))[0] not in ("gen", "pool")
    if isinstance(node, ast.Attribute):
        return _pure(node.value, env)
    if isinstance(node, ast.Subscript):
        return _pure(node.value, env) and isinstance(node.slice, ast.Constant)
    if isinstance(node, (ast.BinOp,)):
        return _pure(node.left, env) and _pure(node.right, env)
    if isinstance(node, ast.UnaryOp):
        return _pure(node.operand, env)
    if isinstance(node, ast.Compare):
        return _pure(node.left, env) and all(_pure(c, env) for c in node.comparators)
    if isinstance(node, ast.BoolOp):
        return all(_pure(v, env) for v in node.values)
    if isinstance(node, ast.JoinedStr):
        return all(_pure(v, env) for v in node.values)
    if isinstance(node, ast.FormattedValue):
        return _pure(node.value, env) and (node.format_spec is None or _pure(node.format_spec, env))
    if isinstance(node, ast.Call) and isinstance(node.func, ast.Name) and node.func.id == "len" and "len" not in env.kinds \
            and len(node.args) == 1 and not node.keywords:
        return _pure(node.args[0], env)
    if isinstance(node, (ast.Tuple, ast.List)):
        return all(_pure(e, env) for e in node.elts)
    return False


def _is_run_call(n):
    return isinstance(n, ast.Call) and isinstance(n.func, ast.Name) and n.func.id == "run_bldfm_single"


def _run_calls(node):
    return [n for n in ast.walk(node) if _is_run_call(n)]


def coq_string(s, node):
    for ch in s:
        if not (32 <= ord(ch) < 127):
            err(node, "string literal with a character outside printable ASCII")
    return '"' + s.replace('"', '""') + '"'


class Translator(D.Translator):
    def __init__(self, fname):
        D.Translator.__init__(self, fname)
        self.depth = 0          # loop nesting
        self.allow_run = False  # a run_bldfm_single call is being translated in a position the call log follows
        self.closers = []       # text that closes the `match` opened by load_config
        self.loaded = "true"
        self.ignored = []       # statements that do not enter the value (for the evidence)
        self.fig = None         # state of the live figure of _save_plots
        self.rt_stores = []

    # ------------------------------------------------------------------ expressions
    def name(self, node, env, iterate=False):
        nm, k = D.Translator.name(self, node, env, iterate)
        if k[0] in NOT_VALUES:
            err(node, "%r (kind %s) may not be used as a value here" % (nm, k[0]))
        return nm, k

    def expr(self, node, env):
        if isinstance(node, ast.JoinedStr):
            return self.fstring(node, env)
        if isinstance(node, ast.Constant) and type(node.value) is int and not isinstance(node.value, bool):
            return D.Translator.expr(self, node, env)
        if isinstance(node, ast.Constant):
            err(node, "constant outside the supported fragment")
        return D.Translator.expr(self, node, env)

    def fstring(self, node, env):
        parts = []
        for v in node.values:
            if _const_str(v):
                if v.value:
                    parts.append(coq_string(v.value, v))
            elif isinstance(v, ast.FormattedValue):
                if v.conversion != -1 or v.format_spec is not None:
                    err(node, "f-string replacement field with a conversion or a format specification")
                t, k = self.expr(v.value, env)
                if k != DATUM:
                    err(node, "f-string replacement field that is not an item of a result")
                parts.append("w_str W %s" % t)
            else:
                err(node, "f-string part outside the supported fragment")
        if not parts:
            parts = ['""']
        return "(" + " ++ ".join(parts) + ")%string", FSTR

    def attribute(self, node, env):
        chain = []
        base = node
        while isinstance(base, ast.Attribute):
            chain.append(base.attr)
            base = base.value
        chain.reverse()
        if isinstance(base, ast.Name) and base.id in env.kinds:
            k = env.kinds[base.id]
            if k == ARGS:
                if len(chain) == 1 and chain[0] in ARG_FIELDS:
                    t, kk = ARG_FIELDS[chain[0]]
                    return t % base.id, kk
                err(node, "attribute of the argument namespace outside the supported fragment")
            if k == CFG and chain[:1] == ["parallel"]:
                if len(chain) == 2 and chain[1] in PAR_FIELDS:
                    return "(w_par_%s W %s)" % (chain[1], base.id), SETTING
                err(node, "field of config.parallel unknown to the model")
        return D.Translator.attribute(self, node, env)

    def subscript(self, node, env):
        if _const_str(node.slice):
            v, kv = self.expr(node.value, env)
            if kv != RES:
                err(node, "constant-key subscript of something that is not a result of run_bldfm_single")
            return "(w_item W %s %s%%string)" % (v, coq_string(node.slice.value, node)), DATUM
        return D.Translator.subscript(self, node, env)

    def call(self, node, env):
        f = node.func
        if isinstance(f, ast.Name) and f.id not in env.kinds:
            if f.id == "run_bldfm_single":
                if not self.allow_run:
                    err(node, "run_bldfm_single called where the call log cannot follow it (allowed: `x = run_bldfm_single(...)`, "
                              "`xs.append(run_bldfm_single(...))`, the element of a list comprehension assigned to a name)")
                kws = self.kw(node, ("met_index",))
                if len(node.args) != 2 or "met_index" not in kws:
                    err(node, "run_bldfm_single must be called as (config, tower, met_index=...)")
                self.allow_run = False
                c, kc = self.expr(node.args[0], env)
                t, kt = self.expr(node.args[1], env)
                i, ki = self.expr(kws["met_index"], env)
                if (kc, kt, ki) != (CFG, TOWER, NAT):
                    err(node, "run_bldfm_single called with arguments of the wrong kind")
                return "(w_single W w_rt %s %s %s)" % (c, t, i), RES
            if f.id in ("len", "range", "list", "enumerate"):
                return D.Translator.call(self, node, env)
            err(node, "call of %r is outside the supported fragment" % f.id)
        err(node, "call outside the supported fragment")

    # ------------------------------------------------------------------ statements that do not enter the value
    def is_logging(self, st, env):
        if isinstance(st, ast.Expr) and isinstance(st.value, ast.Call):
            f = st.value.func
            if isinstance(f, ast.Attribute) and isinstance(f.value, ast.Name) and env.kinds.get(f.value.id) == LOGGER:
                if f.attr not in ("debug", "info", "warning", "error"):
                    err(st, "method of the logger outside the supported fragment")
                if all(_pure(a, env) for a in st.value.args) and not st.value.keywords:
                    return True
                err(st, "logging call whose arguments are not side-effect free")
        return False

    def log_only(self, st, env):
        """logging, or a for loop over a side-effect-free iterable whose body is log-only"""
        if D._is_doc(st) or self.is_logging(st, env):
            return True
        if isinstance(st, ast.For) and not st.orelse and _pure(st.iter, env) and isinstance(st.target, ast.Name) and st.target.id not in env.kinds:
            inner = env.copy()
            inner.kinds[st.target.id] = ("opaque",)
            return all(self.log_only(b, inner) for b in st.body)
        return False

    def mutated(self, stmts):
        out = D.Translator.mutated(self, stmts)
        for st in stmts:
            for n in ast.walk(st):
                if _is_run_call(n) and "w_calls" not in out:
                    out.append("w_calls")
                if (isinstance(n, ast.Call) and isinstance(n.func, ast.Attribute) and n.func.attr == "savefig" and "w_plots" not in out):
                    out.append("w_plots")
        return out

    def loop(self, st, env, ind):
        if _run_calls(st.iter):
            err(st, "run_bldfm_single in the iterable of a loop")
        self.depth += 1
        try:
            fig = self.fig
            lines = D.Translator.loop(self, st, env, ind)
            if self.fig is not fig:
                if self.fig is not None and not self.fig.get("closed"):
                    pass  # a figure left open at the end of an iteration: no effect on what was saved
                self.fig = fig
            return lines
        finally:
            self.depth -= 1

    def with_pool(self, st, env, ind):
        err(st, "with statement outside the supported fragment")

    def if_stmt(self, st, env, ind):
        pad = "  " * ind
        if st.orelse:
            err(st, "`if` with an else branch")
        test, kt = self.expr(st.test, env)
        if kt != BOOL:
            err(st, "`if` whose test is not a flag of the argument namespace")
        body = [b for b in st.body if not D._is_doc(b)]
        # (a) if <flag>: <logging only>; return
        if body and isinstance(body[-1], ast.Return):
            if self.fname != "cmd_run" or self.depth != 0 or body[-1].value is not None:
                err(st, "early return outside the supported fragment")
            if not all(self.log_only(b, env) for b in body[:-1]):
                err(st, "early return after something that is not logging")
            return ["%sif %s then mkOut %s w_rt w_calls w_plots else" % (pad, test, self.loaded)]
        # (b) if <flag>: _save_plots(xs, logger)
        if len(body) == 1 and self.is_save_plots(body[0]):
            if self.fname != "cmd_run" or self.depth != 0:
                err(st, "_save_plots called inside a loop")
            return ["%slet w_plots := if %s then w_plots ++ %s else w_plots in" % (pad, test, self.save_plots_term(body[0], env))]
        err(st, "`if` outside the supported fragment")

    def is_save_plots(self, st):
        return (isinstance(st, ast.Expr) and isinstance(st.value, ast.Call) and isinstance(st.value.func, ast.Name)
                and st.value.func.id == "_save_plots")

    def save_plots_term(self, st, env):
        c = st.value
        if "_save_plots" in env.kinds or len(c.args) != 2 or c.keywords:
            err(st, "_save_plots must be called as _save_plots(results, logger)")
        xs, kx = self.expr(c.args[0], env)
        if kx != LIST(RES):
            err(st, "_save_plots of something that is not a list of results")
        if not (isinstance(c.args[1], ast.Name) and env.kinds.get(c.args[1].id) == LOGGER):
            err(st, "_save_plots must be handed the logger")
        return "gen_save_plots W %s" % xs

    # ------------------------------------------------------------------ statements
    def block(self, stmts, env, ind):
        lines = []
        for st in stmts:
            lines += self.statement(st, env, ind)
        return lines

    def statement(self, st, env, ind):
        pad = "  " * ind
        if D._is_doc(st):
            return []
        if self.is_logging(st, env):
            return []
        if isinstance(st, ast.For) and self.log_only(st, env):
            self.ignored.append("for-loop that only logs (line %d)" % st.lineno)
            return []
        if isinstance(st, (ast.Try, ast.While, ast.Break, ast.Continue, ast.With, ast.Raise, ast.Global, ast.Nonlocal, ast.Delete,
                           ast.FunctionDef, ast.ClassDef, ast.Lambda, ast.Assert, ast.Match if hasattr(ast, "Match") else ast.Try)):
            err(st, "statement outside the supported fragment (%s)" % type(st).__name__)
        top = self.depth == 0 and ind == 1
        if self.fname == "cmd_run":
            r = self.cmd_run_statement(st, env, ind, top)
            if r is not None:
                return r
        else:
            r = self.save_plots_statement(st, env, ind, top)
            if r is not None:
                return r
        if isinstance(st, (ast.For, ast.If)):
            return D.Translator.block(self, [st], env, ind)
        # simple statements: where may run_bldfm_single stand?
        runs = _run_calls(st)
        if runs:
            return self.run_statement(st, runs, env, ind)
        if isinstance(st, ast.Assign) and len(st.targets) == 1 and isinstance(st.targets[0], ast.Tuple):
            return self.unpack(st, env, ind)
        return D.Translator.block(self, [st], env, ind)

    def run_statement(self, st, runs, env, ind):
        pad = "  " * ind
        if len(runs) != 1:
            err(st, "more than one run_bldfm_single in one statement")
        call = runs[0]
        # x = run_bldfm_single(...)
        if isinstance(st, ast.Assign) and len(st.targets) == 1 and isinstance(st.targets[0], ast.Name) and st.value is call:
            self.allow_run = True
            lines = D.Translator.block(self, [st], env, ind)
            return lines + ["%slet w_calls := w_calls ++ [%s] in" % (pad, st.targets[0].id)]
        # xs.append(run_bldfm_single(...))
        if (isinstance(st, ast.Expr) and isinstance(st.value, ast.Call) and isinstance(st.value.func, ast.Attribute) and st.value.func.attr == "append"
                and isinstance(st.value.func.value, ast.Name) and len(st.value.args) == 1 and st.value.args[0] is call and not st.value.keywords):
            xs = st.value.func.value.id
            if env.kinds.get(xs, ("",))[0] != "list":
                err(st, "append to something that is not a list")
            self.allow_run = True
            term, k = self.expr(call, env)
            env.kinds[xs] = unify(env.kinds[xs], LIST(k), "append")
            return ["%slet w_run := %s in" % (pad, term), "%slet w_calls := w_calls ++ [w_run] in" % pad, "%slet %s := %s ++ [w_run] in" % (pad, xs, xs)]
        # xs = [run_bldfm_single(...) for ... for ...]
        if (isinstance(st, ast.Assign) and len(st.targets) == 1 and isinstance(st.targets[0], ast.Name) and isinstance(st.value, ast.ListComp)
                and st.value.elt is call):
            self.allow_run = True
            lines = D.Translator.block(self, [st], env, ind)
            return lines + ["%slet w_calls := w_calls ++ %s in" % (pad, st.targets[0].id)]
        err(st, "run_bldfm_single called where the call log cannot follow it")

    def unpack(self, st, env, ind):
        """a, b = <datum>"""
        pad = "  " * ind
        t = st.targets[0]
        if len(t.elts) != 2 or not all(isinstance(e, ast.Name) for e in t.elts) or t.elts[0].id == t.elts[1].id:
            err(st, "unpacking outside the supported fragment")
        v, kv = self.expr(st.value, env)
        if kv != DATUM:
            return D.Translator.block(self, [st], env, ind)
        for e in t.elts:
            if env.kinds.get(e.id, DATUM) != DATUM:
                err(st, "unpacking re-binds %r" % e.id)
            env.bind(st, e.id, DATUM)
        return ["%slet '(%s, %s) := w_unpack2 W %s in" % (pad, t.elts[0].id, t.elts[1].id, v)]

    # ------------------------------------------------------------------ cmd_run
    def cmd_run_statement(self, st, env, ind, top):
        pad = "  " * ind
        if isinstance(st, ast.Expr) and isinstance(st.value, ast.Call) and isinstance(st.value.func, ast.Name):
            fn = st.value.func.id
            if fn == "initialize" and fn not in env.kinds:
                if not top or st.value.args or st.value.keywords:
                    err(st, "initialize must be called as initialize(), at the top level")
                self.ignored.append("initialize()")
                return []
            if fn == "_save_plots":
                if not top:
                    err(st, "_save_plots called inside a loop")
                return ["%slet w_plots := w_plots ++ %s in" % (pad, self.save_plots_term(st, env))]
        if isinstance(st, ast.Assign) and len(st.targets) == 1 and isinstance(st.value, ast.Call) and isinstance(st.value.func, ast.Name):
            fn = st.value.func.id
            t = st.targets[0]
            if fn == "get_logger" and fn not in env.kinds:
                if not (isinstance(t, ast.Name) and len(st.value.args) == 1 and _const_str(st.value.args[0]) and not st.value.keywords and top):
                    err(st, "get_logger outside the supported fragment")
                if t.id in env.kinds:
                    err(st, "re-binding of %r" % t.id)
                env.bind(st, t.id, LOGGER)
                self.ignored.append(ast.unparse(st))
                return []
            if fn == "load_config" and fn not in env.kinds:
                if not (isinstance(t, ast.Name) and len(st.value.args) == 1 and not st.value.keywords and top):
                    err(st, "load_config must be called as <name> = load_config(args.config), at the top level")
                p, kp = self.expr(st.value.args[0], env)
                if kp != PATH:
                    err(st, "load_config of something that is not args.config")
                if t.id in env.kinds or self.closers:
                    err(st, "second load_config / re-binding of %r" % t.id)
                env.bind(st, t.id, CFG)
                self.closers.append("  end")
                return ["%smatch w_load W %s with None => mkOut false w_rt w_calls w_plots | Some %s =>" % (pad, p, t.id)]
        if isinstance(st, ast.ImportFrom):
            ok = len(st.names) == 1 and st.names[0].name == "config" and ((st.level == 1 and st.module is None) or (st.level == 0 and st.module == "bldfm"))
            if not ok or not top:
                err(st, "import outside the supported fragment")
            alias = st.names[0].asname or "config"
            if alias in env.kinds:
                err(st, "the import re-binds %r" % alias)
            env.bind(st, alias, RTMOD)
            return []
        if isinstance(st, ast.Assign) and len(st.targets) == 1 and isinstance(st.targets[0], ast.Attribute):
            t = st.targets[0]
            if not (isinstance(t.value, ast.Name) and env.kinds.get(t.value.id) == RTMOD):
                err(st, "attribute store outside the supported fragment")
            if t.attr not in RT_ATTRS:
                err(st, "store into bldfm.config.%s, which the model does not know" % t.attr)
            if not top:
                err(st, "runtime setting stored inside a loop / branch")
            v, kv = self.expr(st.value, env)
            if kv != SETTING:
                err(st, "the stored value is not a field of config.parallel")
            self.rt_stores.append(t.attr)
            return ["%slet w_rt := %s %s w_rt in" % (pad, RT_ATTRS[t.attr], v)]
        if isinstance(st, ast.Return):
            err(st, "return outside the supported fragment")
        return None

    # ------------------------------------------------------------------ _save_plots
    SETUP = ["import matplotlib", "matplotlib.use('Agg')", "import matplotlib.pyplot as plt", "from .plotting import plot_footprint_field",
             "os.makedirs('plots', exist_ok=True)"]

    def save_plots_statement(self, st, env, ind, top):
        pad = "  " * ind
        txt = ast.unparse(st)
        if txt in self.SETUP:
            if not top:
                err(st, "set-up statement inside the loop")
            if txt == "import matplotlib":
                env.bind(st, "matplotlib", MPLMOD)
            elif txt == "matplotlib.use('Agg')":
                if env.kinds.get("matplotlib") != MPLMOD:
                    err(st, "matplotlib.use before import matplotlib")
            elif txt == "import matplotlib.pyplot as plt":
                env.bind(st, "plt", PLTMOD)
            elif txt == "from .plotting import plot_footprint_field":
                env.bind(st, "plot_footprint_field", PLOTFN)
            self.ignored.append(txt)
            return []
        if isinstance(st, (ast.Import, ast.ImportFrom)):
            err(st, "import outside the supported fragment")
        # fig, ax = plt.subplots()
        if (isinstance(st, ast.Assign) and isinstance(st.value, ast.Call) and isinstance(st.value.func, ast.Attribute)
                and isinstance(st.value.func.value, ast.Name) and env.kinds.get(st.value.func.value.id) == PLTMOD):
            t = st.targets[0]
            if not (st.value.func.attr == "subplots" and not st.value.args and not st.value.keywords and len(st.targets) == 1
                    and isinstance(t, ast.Tuple) and len(t.elts) == 2 and all(isinstance(e, ast.Name) for e in t.elts) and t.elts[0].id != t.elts[1].id):
                err(st, "only `fig, ax = plt.subplots()` is supported")
            if self.fig is not None and not self.fig.get("closed"):
                err(st, "a second figure while one is live")
            for e in t.elts:
                if e.id in env.kinds and env.kinds[e.id] not in (FIG, AX):
                    err(st, "the figure re-binds %r" % e.id)
            env.bind(st, t.elts[0].id, FIG)
            env.bind(st, t.elts[1].id, AX)
            self.fig = {"fig": t.elts[0].id, "ax": t.elts[1].id, "field": False, "marker": False, "closed": False}
            return []
        if isinstance(st, ast.Expr) and isinstance(st.value, ast.Call):
            c = st.value
            f = c.func
            # plot_footprint_field(f, g, ax=ax, ...)
            if isinstance(f, ast.Name) and env.kinds.get(f.id) == PLOTFN:
                fig = self.live(st)
                kws = {k.arg: k.value for k in c.keywords}
                if None in kws or len(kws) != len(c.keywords) or len(c.args) != 2:
                    err(st, "plot_footprint_field must be called as (field, grid, ax=ax, ...)")
                axv = kws.pop("ax", None)
                if not (isinstance(axv, ast.Name) and axv.id == fig["ax"] and env.kinds.get(axv.id) == AX):
                    err(st, "plot_footprint_field must draw on the axes of the live figure (ax=ax)")
                for k, v in kws.items():
                    if not _pure(v, env):
                        err(st, "keyword %s= of plot_footprint_field is not side-effect free" % k)
                a, ka = self.expr(c.args[0], env)
                b, kb = self.expr(c.args[1], env)
                if ka != DATUM or kb != DATUM:
                    err(st, "plot_footprint_field of something that is not an item of the result")
                if fig["field"]:
                    err(st, "a second field on the same axes")
                fig["field"] = True
                return ["%slet w_fld := %s in" % (pad, a), "%slet w_grd := %s in" % (pad, b)]
            if isinstance(f, ast.Attribute) and isinstance(f.value, ast.Name):
                k = env.kinds.get(f.value.id)
                # ax.plot(x, y, <style>)
                if k == AX:
                    fig = self.live(st)
                    if f.attr != "plot" or f.value.id != fig["ax"] or len(c.args) < 2:
                        err(st, "only ax.plot(x, y, ...) on the axes of the live figure is supported")
                    for v in list(c.args[2:]) + [kw.value for kw in c.keywords]:
                        if not isinstance(v, ast.Constant):
                            err(st, "style argument of ax.plot that is not a constant")
                    if any(kw.arg is None for kw in c.keywords):
                        err(st, "ax.plot(**...)")
                    x, kx = self.expr(c.args[0], env)
                    y, ky = self.expr(c.args[1], env)
                    if kx != DATUM or ky != DATUM:
                        err(st, "marker coordinates that are not items of the result")
                    if fig["marker"]:
                        err(st, "a second marker on the same axes")
                    fig["marker"] = True
                    return ["%slet w_mrk := (%s, %s) in" % (pad, x, y)]
                # fig.savefig(name, ...)
                if k == FIG:
                    fig = self.live(st)
                    if f.attr != "savefig" or f.value.id != fig["fig"] or len(c.args) != 1:
                        err(st, "only fig.savefig(name, ...) of the live figure is supported")
                    for kw in c.keywords:
                        if kw.arg is None or not isinstance(kw.value, ast.Constant):
                            err(st, "keyword of savefig that is not a constant")
                    nm, kn = self.expr(c.args[0], env)
                    if kn != FSTR:
                        err(st, "the file name is not an f-string over items of the result")
                    if not (fig["field"] and fig["marker"]):
                        err(st, "the figure is saved without %s" % ("the field" if not fig["field"] else "the tower marker"))
                    return ["%slet w_plots := w_plots ++ [mkPlot %s w_fld w_grd w_mrk] in" % (pad, nm)]
                # plt.close(fig)
                if k == PLTMOD:
                    fig = self.live(st)
                    if not (f.attr == "close" and len(c.args) == 1 and isinstance(c.args[0], ast.Name) and c.args[0].id == fig["fig"] and not c.keywords):
                        err(st, "only plt.close(fig) of the live figure is supported")
                    fig["closed"] = True
                    return []
        if isinstance(st, ast.Return):
            err(st, "return outside the supported fragment")
        return None

    def live(self, st):
        if self.fig is None or self.fig.get("closed"):
            err(st, "no live figure")
        return self.fig

    # ------------------------------------------------------------------ functions
    def function(self, fn):
        a = fn.args
        if a.vararg or a.kwarg or a.kwonlyargs or a.posonlyargs or a.defaults or fn.decorator_list or isinstance(fn, ast.AsyncFunctionDef):
            err(fn, "signature / decorators of %s outside the supported fragment" % fn.name)
        names = [x.arg for x in a.args]
        env = Env()
        body = list(fn.body)
        if body and isinstance(body[-1], ast.Return) and body[-1].value is None:
            body = body[:-1]
        if fn.name == "cmd_run":
            if len(names) != 1:
                raise TranslateError("parameters of cmd_run are %r, expected one (the argument namespace)" % names)
            env.bind(fn, names[0], ARGS)
            env.kinds["w_calls"] = LIST(RES)
            env.kinds["w_plots"] = LIST(PLOT)
            lines = ["  let w_rt := @rt0 V in", "  let w_calls := @nil R in", "  let w_plots := @nil (plot D) in"]
            lines += self.block(body, env, 1)
            if not self.closers:
                raise TranslateError("cmd_run never calls load_config")
            head = ("Definition gen_cmd_run {Path Cfg Tw N V R D : Type} (W : world Path Cfg Tw N V R D) (%s : cli_args Path) : outcome V R D :=" % names[0])
            return "\n".join([head] + lines + ["  mkOut %s w_rt w_calls w_plots" % self.loaded] + self.closers) + "."
        if len(names) != 2 or names[0] == names[1]:
            raise TranslateError("parameters of _save_plots are %r, expected two (the results, the logger)" % names)
        env.bind(fn, names[0], LIST(RES))
        env.bind(fn, names[1], LOGGER)
        env.kinds["w_plots"] = LIST(PLOT)
        lines = ["  let w_plots := @nil (plot D) in"]
        lines += self.block(body, env, 1)
        head = "Definition gen_save_plots {Path Cfg Tw N V R D : Type} (W : world Path Cfg Tw N V R D) (%s : list R) : list (plot D) :=" % names[0]
        return "\n".join([head] + lines + ["  w_plots."])


PRELUDE = """(* GENERATED by harness/py2coq_cli.py from %(path)s - do not edit.
   Statement-by-statement translation of cmd_run and _save_plots.  coq/Bridge/CliBridge.v proves them equal to the
   hand-written model of Model/Cli.v for all worlds and arguments. *)
From Coq Require Import List Arith String.
From BL Require Import Model.Cli.
Import ListNotations.

(* x[a:b] for non-negative a, b (slices clip, they never raise); enumerate(x) *)
Definition pyslice {X : Type} (x : list X) (a b : nat) : list X := List.firstn (b - a) (List.skipn a x).
Definition pyenumerate {X : Type} (x : list X) : list (nat * X) := List.combine (List.seq 0 (List.length x)) x.

"""

# names the two functions rely on and how the module must bind them
IMPORTS = {
    "initialize": ("", 1, "initialize"),                       # from . import initialize
    "load_config": ("config_parser", 1, "load_config"),        # from .config_parser import load_config
    "run_bldfm_single": ("interface", 1, "run_bldfm_single"),  # from .interface import run_bldfm_single
    "get_logger": ("utils", 1, "get_logger"),                  # from .utils import get_logger
}


def check_module(tree):
    """module level: imports, definitions, the `if __name__ == "__main__": main()` guard - nothing else; the names the
    translated functions rely on are bound exactly once, by the expected import / a plain undecorated def"""
    defs = {}
    bound = {}
    for st in tree.body:
        if D._is_doc(st):
            continue
        if isinstance(st, (ast.FunctionDef, ast.AsyncFunctionDef, ast.ClassDef)):
            defs.setdefault(st.name, []).append(st)
        elif isinstance(st, ast.Import):
            for a in st.names:
                bound.setdefault((a.asname or a.name).split(".")[0], []).append(("import", a.name))
        elif isinstance(st, ast.ImportFrom):
            for a in st.names:
                bound.setdefault(a.asname or a.name, []).append((st.module or "", st.level, a.name))
        elif isinstance(st, ast.If) and ast.unparse(st.test) == "__name__ == '__main__'" and not st.orelse and [ast.unparse(b) for b in st.body] == ["main()"]:
            pass
        else:
            err(st, "module-level statement of cli.py outside the supported fragment")
    for nm in FUNCS + ["main"]:
        if len(defs.get(nm, [])) != 1 or not isinstance(defs[nm][0], ast.FunctionDef) or defs[nm][0].decorator_list or nm in bound:
            raise TranslateError("%s must be defined exactly once at module level by a plain undecorated def" % nm)
    for nm, want in IMPORTS.items():
        if bound.get(nm) != [want] or nm in defs:
            raise TranslateError("%s is not (only) bound by `from .%s import %s`" % (nm, want[0], want[2]))
    if bound.get("os") != [("import", "os")] or "os" in defs:
        raise TranslateError("os is not (only) the module os")
    for nm in ("len", "range", "list", "enumerate"):
        if nm in defs or nm in bound:
            raise TranslateError("builtin %s is re-bound at module level" % nm)
    # nothing in the module stores into the translated functions or the names they rely on
    for n in ast.walk(tree):
        if isinstance(n, (ast.Global, ast.Nonlocal)):
            err(n, "global / nonlocal declaration")
        tg = []
        if isinstance(n, ast.Assign):
            tg = n.targets
        elif isinstance(n, (ast.AugAssign, ast.AnnAssign, ast.NamedExpr)):
            tg = [n.target]
        for t in tg:
            for m in ast.walk(t):
                if isinstance(m, ast.Name) and m.id in list(IMPORTS) + FUNCS + ["os", "len", "range", "list", "enumerate"]:
                    err(n, "assignment to %r" % m.id)
    # main hands the parsed namespace to cmd_run unchanged
    main = defs["main"][0]
    calls = [n for n in ast.walk(main) if isinstance(n, ast.Call) and isinstance(n.func, ast.Name) and n.func.id == "cmd_run"]
    if len(calls) != 1 or ast.unparse(calls[0]) != "cmd_run(args)":
        raise TranslateError("main does not call cmd_run(args) exactly once")
    return {nm: defs[nm][0] for nm in FUNCS}


def translate(path=None, src=None, info=None):
    """-> text of GenCli.v; raises TranslateError on anything outside the supported fragment"""
    if src is None:
        try:
            src = open(path).read()
        except OSError as e:
            raise TranslateError("cannot read %s: %s" % (path, e))
    try:
        tree = ast.parse(src)
    except SyntaxError as e:
        raise TranslateError("syntax error: %s" % e)
    fns = check_module(tree)
    parts = [PRELUDE % {"path": path or "<string>"}]
    for nm in ["_save_plots", "cmd_run"]:
        tr = Translator(nm)
        parts.append(tr.function(fns[nm]) + "\n")
        if info is not None:
            info[nm] = {"ignored": tr.ignored, "runtime_stores": tr.rt_stores}
    return "\n".join(parts)


def cli_path():
    import core

    return os.path.join(core.SRC, "bldfm", "cli.py")


GEN_NAMES = ["gen_save_plots", "gen_cmd_run"]


def run(ctx):
    """translate + compile + bridge; registers the obligations gen:GenCli.v / bridge:<lemma> / bridge-closed on ctx"""
    import re

    import core

    info = {}
    try:
        text = translate(cli_path(), info=info)
    except TranslateError as e:
        ctx.obligation("gen:GenCli.v", False, "cli translator failed closed: %s" % e)
        return False
    except Exception as e:  # a crash of the translator is a failure to translate, never a pass
        ctx.obligation("gen:GenCli.v", False, "cli translator crashed (treated as failed closed): %r" % e)
        return False
    ctx.obligation("gen:GenCli.v", True)
    ctx.cov["cli_functions_translated"] = GEN_NAMES
    ctx.cov["cli_statements_ignored_for_the_value"] = info
    if not core.run_bridge(ctx, {"GenCli.v": text}, ["CliBridge.v"]):
        return False
    src = core.strip_coq_comments(open(os.path.join(core.COQ, "Bridge", "CliBridge.v")).read())
    names = re.findall(r"^\s*(?:Lemma|Theorem)\s+([\w']+)", src, re.M)
    body = "From Gen Require Import GenCli CliBridge.\n" + "".join(
        'Goal True. idtac "THEOREM %s". Abort. Print Assumptions %s.\n' % (n, n) for n in names)
    rc, out, er, dt = ctx.coqc(ctx.write("CliBridgeClosed.v", body), timeout=300)
    got = core.parse_assumptions(out) if rc == 0 else {}
    open_ = [n for n in names if got.get(n) != set()]
    ctx.obligation("bridge-closed:CliBridge.v", rc == 0 and not open_,
                   "" if rc == 0 and not open_ else "not closed under the global context: %s %s" % (open_, (out + er)[-800:]))
    return rc == 0 and not open_


if __name__ == "__main__":
    import sys

    sys.stdout.write(translate(sys.argv[1] if len(sys.argv) > 1 else "/repo/src/bldfm/cli.py"))
