"""Statement skeleton of the solver (tie B, fail closed on *added or changed statements*).

The slice translator pins the expressions it extracts; a statement that is inserted between them
(a new mask, a memo table, an early return) is invisible to it.  The skeleton is the complete,
ordered list of statements of the given functions (plus the module-level statements that are not
imports or definitions), with
  * docstrings, comments, logging calls removed (AST level),
  * every expression that a slice bridges replaced by a placeholder (those may be rewritten
    freely as long as the bridge lemma still proves them equal to the model),
compared with the committed expectation (harness/solver_skeleton.json).  A difference is a broken
proof obligation `structure:solver-skeleton`: the model no longer describes this code statement by
statement, and the check goes on to search for a failing input.
"""
import ast
import copy
import json
import os
import re
import sys

import astnorm
import py2coq


class _Replace(ast.NodeTransformer):
    def __init__(self, targets):
        self.targets = targets  # {id(node): placeholder}

    def generic_visit(self, node):
        for field, old in ast.iter_fields(node):
            if isinstance(old, list):
                new = []
                for v in old:
                    if isinstance(v, ast.AST):
                        v = ast.Name(id=self.targets[id(v)], ctx=ast.Load()) if id(v) in self.targets else self.visit(v)
                    new.append(v)
                old[:] = new
            elif isinstance(old, ast.AST):
                if id(old) in self.targets:
                    setattr(node, field, ast.Name(id=self.targets[id(old)], ctx=ast.Load()))
                else:
                    self.visit(old)
        return node


def _args_text(fn):
    """the parameter list without type annotations: an annotation is evaluated once, when the `def` is executed, and has no
    other effect; the ones dropped here are pure expressions (names, attributes, subscripts, literals, `|`), so evaluating
    them cannot do anything either.  Any other annotation stays in the text (and is pinned by the skeleton)."""
    def pure(e):
        if isinstance(e, (ast.Name, ast.Constant)):
            return True
        if isinstance(e, ast.Attribute):
            return pure(e.value)
        if isinstance(e, ast.Subscript):
            return pure(e.value) and pure(e.slice)
        if isinstance(e, (ast.Tuple, ast.List)):
            return all(pure(x) for x in e.elts)
        if isinstance(e, ast.BinOp) and isinstance(e.op, ast.BitOr):
            return pure(e.left) and pure(e.right)
        return False
    a = copy.deepcopy(fn.args)
    for x in a.posonlyargs + a.args + a.kwonlyargs + [y for y in (a.vararg, a.kwarg) if y is not None]:
        if x.annotation is not None and pure(x.annotation):
            x.annotation = None
    txt = ast.unparse(a)
    if fn.returns is not None and not pure(fn.returns):
        txt += " -> " + ast.unparse(fn.returns)
    return txt


def _is_logging(st):
    if isinstance(st, ast.Expr) and isinstance(st.value, ast.Call):
        f = st.value.func
        return isinstance(f, ast.Attribute) and isinstance(f.value, ast.Name) and f.value.id in ("logger", "logging")
    return False


def _is_doc(st):
    return isinstance(st, ast.Expr) and isinstance(st.value, ast.Constant) and isinstance(st.value.value, str)


def function_skeleton(fn, slices, elide=None):
    """slices: the slice dicts of this function (py2coq format); elide: {id(statement): placeholder} - statements that a
    whole-function translator covers (bridged as a whole against the model): a run of them appears as one placeholder line"""
    by_target = {}
    for sl in slices:
        if "target" in sl:
            by_target.setdefault((sl["target"], sl.get("occ", 0)), []).append(sl)
    iftests = [(re.compile(sl["iftest"]), sl["name"]) for sl in slices if sl.get("iftest")]
    inlined = {}  # names whose defining expression is substituted into a bridged slice (and so covered by its lemma)
    for sl in slices:
        for nm in sl.get("inline", []) or []:
            inlined.setdefault(nm, sl["name"])
    count = {}
    lines = ["def %s(%s)%s" % (fn.name, _args_text(fn), "".join(" @" + ast.unparse(d) for d in fn.decorator_list))]

    def rhs_text(name, value):
        k = count.get(name, -1) + 1
        count[name] = k
        sls = by_target.get((name, k), [])
        if not sls:
            if name in inlined:
                return "<inlined-into:%s>" % inlined[name]
            return ast.unparse(value)
        whole = [sl for sl in sls if not sl.get("path")]
        if whole:
            return "<bridged:%s>" % whole[0]["name"]
        value = copy.deepcopy(value)
        repl = {}
        for sl in sls:
            try:
                node = py2coq.follow_path(value, sl["path"])
            except py2coq.TranslateError:
                continue
            repl[id(node)] = "BRIDGED_" + sl["name"]
        wrapper = ast.Expr(value=value)
        _Replace(repl).visit(wrapper)
        return ast.unparse(wrapper.value)

    def visit(stmts, depth):
        ind = "  " * depth
        for st in stmts:
            if elide and id(st) in elide:
                if not lines or lines[-1] != ind + elide[id(st)]:
                    lines.append(ind + elide[id(st)])
                continue
            if _is_doc(st) or _is_logging(st):
                continue
            if isinstance(st, ast.Assign) and len(st.targets) == 1:
                t = st.targets[0]
                if isinstance(t, ast.Tuple) and isinstance(st.value, ast.Tuple) and len(t.elts) == len(st.value.elts):
                    for a, b in zip(t.elts, st.value.elts):
                        nm = a.id if isinstance(a, ast.Name) else ast.unparse(a)
                        lines.append("%s%s = %s" % (ind, nm, rhs_text(nm, b)))
                else:
                    nm = t.id if isinstance(t, ast.Name) else ast.unparse(t)
                    lines.append("%s%s = %s" % (ind, nm, rhs_text(nm, st.value)))
            elif isinstance(st, ast.If):
                txt = ast.unparse(st.test)
                for pat, name in iftests:
                    if pat.search(txt):
                        txt = "<bridged:%s>" % name
                        break
                lines.append("%sif %s:" % (ind, txt))
                visit(st.body, depth + 1)
                if st.orelse:
                    lines.append("%selse:" % ind)
                    visit(st.orelse, depth + 1)
            elif isinstance(st, (ast.For, ast.While)):
                head = "for %s in %s:" % (ast.unparse(st.target), ast.unparse(st.iter)) if isinstance(st, ast.For) else "while %s:" % ast.unparse(st.test)
                lines.append(ind + head)
                visit(st.body, depth + 1)
                if st.orelse:
                    lines.append("%selse:" % ind)
                    visit(st.orelse, depth + 1)
            elif isinstance(st, (ast.With, ast.Try)):
                lines.append(ind + type(st).__name__.lower() + " " + (", ".join(ast.unparse(i) for i in st.items) if isinstance(st, ast.With) else "") + ":")
                visit(st.body, depth + 1)
                for h in getattr(st, "handlers", []):
                    lines.append("%sexcept %s:" % (ind, ast.unparse(h.type) if h.type else ""))
                    visit(h.body, depth + 1)
                for extra in ("orelse", "finalbody"):
                    if getattr(st, extra, None):
                        lines.append("%s%s:" % (ind, extra))
                        visit(getattr(st, extra), depth + 1)
            elif isinstance(st, ast.Return) and st.value is not None:
                lines.append("%sreturn %s" % (ind, rhs_text("return", st.value)))
            else:
                lines.append(ind + ast.unparse(st))

    visit(fn.body, 1)
    return lines


def module_skeleton(path, funcs, slices, elide=None):
    """funcs: function names; returns {"module": [...], fn: [...]}; elide: callback tree -> {id(statement): placeholder}"""
    src = open(path).read()
    tree = astnorm.parse_file(path)  # dict(k=v) is read as {'k': v}; NEW single-use temporaries are substituted forward (harness/astnorm.py)
    skip = elide(tree) if elide is not None else None
    out = {"module": []}
    for st in tree.body:
        if isinstance(st, (ast.Import, ast.ImportFrom, ast.FunctionDef, ast.ClassDef)) or _is_doc(st):
            continue
        out["module"].append(ast.unparse(st))
    out["definitions"] = sorted(st.name for st in tree.body if isinstance(st, (ast.FunctionDef, ast.ClassDef)))
    for f in funcs:
        fn = py2coq.find_function(tree, f)
        out[f] = function_skeleton(fn, [sl for sl in slices if sl["func"] == f], skip)
    return out


_BRIDGED_LINE = re.compile(r"^(\s*)([A-Za-z_]\w*) = <bridged>$")


def canonical_runs(lines):
    """A maximal run of consecutive lines `name = <bridged>` of one block (same indentation, pairwise different names) is
    put into alphabetical order.  These are the assignments whose right-hand sides the SSA slice translator substitutes by
    DATA FLOW (most recent assignment in source order), so what an order of such statements means is decided by the
    bridge lemmas of the generated expressions, not by the text; reordering independent ones must not alarm."""
    out, i = [], 0
    while i < len(lines):
        m = _BRIDGED_LINE.match(lines[i]) if isinstance(lines[i], str) else None
        if not m:
            out.append(lines[i])
            i += 1
            continue
        j, run, names = i, [], []
        while j < len(lines) and isinstance(lines[j], str):
            mj = _BRIDGED_LINE.match(lines[j])
            if not mj or mj.group(1) != m.group(1):
                break
            run.append(lines[j])
            names.append(mj.group(2))
            j += 1
        out.extend(sorted(run) if len(set(names)) == len(names) else run)
        i = j
    return out


def compare(got, want):
    import difflib
    diffs = []
    for k in sorted(set(got) | set(want)):
        a, b = canonical_runs(want.get(k, [])), canonical_runs(got.get(k, []))
        if a != b:
            d = list(difflib.unified_diff(a, b, "expected:" + k, "current:" + k, lineterm="", n=1))
            diffs.append("\n".join(d[:60]))
    return diffs


# ---------------------------------------------------------------------------------------------
# name-based variant for the SSA slice tables (pbl_model, Kormann-Meixner, wind, geo): the right-hand
# side of every assignment to a name that some slice translates or inlines is elided (it is covered by a
# bridge lemma through SSA substitution); every other statement — in particular in-place updates,
# augmented assignments, new names, new branches, early returns — is pinned.


def _base_name(t):
    while isinstance(t, (ast.Subscript, ast.Attribute)):
        t = t.value
    return t.id if isinstance(t, ast.Name) else None


def names_function_skeleton(fn, names):
    lines = ["def %s(%s)%s" % (fn.name, _args_text(fn), "".join(" @" + ast.unparse(d) for d in fn.decorator_list))]

    def visit(stmts, depth):
        ind = "  " * depth
        for st in stmts:
            if _is_doc(st) or _is_logging(st):
                continue
            if isinstance(st, ast.Assign):
                tg = " = ".join(ast.unparse(t) for t in st.targets)
                bases = set()
                for t in st.targets:
                    for e in (t.elts if isinstance(t, ast.Tuple) else [t]):
                        bases.add(_base_name(e))
                if bases and bases <= names:
                    lines.append("%s%s = <bridged>" % (ind, tg))
                else:
                    lines.append("%s%s = %s" % (ind, tg, ast.unparse(st.value)))
            elif isinstance(st, ast.If):
                lines.append("%sif %s:" % (ind, ast.unparse(st.test)))
                visit(st.body, depth + 1)
                if st.orelse:
                    lines.append("%selse:" % ind)
                    visit(st.orelse, depth + 1)
            elif isinstance(st, (ast.For, ast.While)):
                head = "for %s in %s:" % (ast.unparse(st.target), ast.unparse(st.iter)) if isinstance(st, ast.For) else "while %s:" % ast.unparse(st.test)
                lines.append(ind + head)
                visit(st.body, depth + 1)
                if st.orelse:
                    lines.append("%selse:" % ind)
                    visit(st.orelse, depth + 1)
            elif isinstance(st, (ast.With, ast.Try)):
                lines.append(ind + type(st).__name__.lower() + ":")
                visit(st.body, depth + 1)
                for h in getattr(st, "handlers", []):
                    lines.append("%sexcept %s:" % (ind, ast.unparse(h.type) if h.type else ""))
                    visit(h.body, depth + 1)
                for extra in ("orelse", "finalbody"):
                    if getattr(st, extra, None):
                        lines.append("%s%s:" % (ind, extra))
                        visit(getattr(st, extra), depth + 1)
            elif isinstance(st, ast.Return) and st.value is not None and "return" in names:
                lines.append("%sreturn <bridged>" % ind)
            else:
                lines.append(ind + ast.unparse(st))

    visit(fn.body, 1)
    return lines


def names_skeleton(path, funcs, names):
    tree = astnorm.parse_file(path)
    out = {}
    for f in funcs:
        fn = py2coq.find_function(tree, f)
        out[f] = names_function_skeleton(fn, set(names.get(f, names.get("*", set())) if isinstance(names, dict) else names))
    return out


SKELDIR = os.path.join(os.path.dirname(os.path.abspath(__file__)), "skeletons")


def check_names(ctx, label, path, funcs, names):
    """obligation structure:<label>-skeleton: statements of `funcs` other than the bridged right-hand sides equal the
    committed expectation harness/skeletons/<label>.json"""
    exp = os.path.join(SKELDIR, label + ".json")
    try:
        got = names_skeleton(path, funcs, names)
    except Exception as e:
        ctx.obligation("structure:%s-skeleton" % label, False, "skeleton extraction failed: %s" % e)
        return False
    if os.environ.get("VERIF_UPDATE_SKELETONS") == "1":
        os.makedirs(SKELDIR, exist_ok=True)
        json.dump(got, open(exp, "w"), indent=1)
    want = json.load(open(exp))
    diffs = compare(got, want)
    ctx.obligation("structure:%s-skeleton" % label, not diffs,
                   "" if not diffs else "statements of %s differ from the ones the model describes (bridged right-hand sides excluded):\n%s" % (os.path.basename(path), "\n".join(diffs)[:1400]))
    return not diffs


def slice_names(slices, func=None):
    """per function: names some slice translates or inlines"""
    out = {}
    for sl in slices:
        f = sl["func"]
        s = out.setdefault(f, set())
        t = sl.get("target")
        if t and sl.get("kind") not in ("iftest", "cond") or (t and sl.get("kind") == "cond" and re.match(r"^[A-Za-z_]\w*$", t)):
            m = re.match(r"^([A-Za-z_]\w*)", t)
            if m:
                s.add(m.group(1))
        for nm in sl.get("inline", []) or []:
            s.add(nm)
    return out
