"""Observation, on the real code, of what the rounded-arithmetic theorems (Properties/RoundedProps.v) predict:
rescaling a request by a power of two changes the result by EXACT powers of two — bit for bit, not to a tolerance.

  source      : (q0, bg) * s                      -> conc * s, flux * s            (C04_homogeneous_in_rounded_arithmetic;
                                                                                     s = +2^e and s = -2^e: rounding to nearest is odd)
  velocity    : (u, v, Kx, Ky, Kz) * s, bg / s    -> conc / s, flux identical       (C07_velocity_scaling_in_rounded_arithmetic)
  length      : (z, domain, meas_pt, halo, K) * s -> fields identical, coords * s  (C07_length_scaling_in_rounded_arithmetic)

The theorems are about Model/Solver.v over RndOps (any homogeneous rounding, no exponent bounds); the code additionally
has a bounded exponent range, so cells outside a wide normal-range window of the result dtype are not compared.
Used by props/c04.py and props/c07.py; every mismatch is a correspondence failure with the case as hint."""
import numpy as np

import solvercorr as sc


def _window(dtype):
    fi = np.finfo(dtype)
    return float(fi.tiny) * 2.0 ** 64, float(fi.max) * 2.0 ** -64


def _same_bits(a, b, ref):
    """a, b arrays of one dtype; exact comparison (no tolerance) on the cells whose reference magnitude is well inside the normal range"""
    a = np.ascontiguousarray(a)
    b = np.ascontiguousarray(b)
    if a.shape != b.shape or a.dtype != b.dtype:
        return False, "shape/dtype %r %r vs %r %r" % (a.shape, a.dtype, b.shape, b.dtype), 0
    lo, hi = _window(a.dtype)
    m = (np.abs(ref) >= lo) & (np.abs(ref) <= hi) | (ref == 0)
    # equality as real numbers (the theorem is over R): identical bit patterns, except that +0.0 and -0.0 are the same
    # number (an exactly cancelling sum is +0 in round-to-nearest whatever the sign of the factor) and NaN matches NaN
    bad = m & ~((a == b) | (np.isnan(a) & np.isnan(b)))
    n = int(m.sum())
    if bad.any():
        k = np.argwhere(bad)[0]
        ka = tuple(int(t) for t in k)
        return False, "%d of %d cells differ, first at %r: %r vs %r" % (int(bad.sum()), n, ka, a[ka].item(), b[ka].item()), n
    return True, "", n


def _fields(res):
    (X, Y, Z), conc, flx = res
    return [np.asarray(A) for A in (X, Y, Z)], np.asarray(conc), np.asarray(flx)


def _pow2(dtype, e):
    return np.asarray(2.0 ** e, dtype=dtype)


def transformed(case, kind, e, sign=1):
    """the rescaled request and the predicted exponents (coords, conc, flux) of two; sign = -1 (source only): s = -2^e"""
    s = sign * 2.0 ** e
    u, v, Kx, Ky, Kz = case["profiles"]
    if kind == "source":
        return dict(case, q0=case["q0"] * s, bg=case["bg"] * s), (0, e, e)
    if kind == "velocity":
        return dict(case, profiles=(u * s, v * s, Kx * s, Ky * s, Kz * s), bg=case["bg"] / s), (0, -e, 0)
    if kind == "length":
        return dict(case, z=case["z"] * s, profiles=(u, v, Kx * s, Ky * s, Kz * s),
                    domain=(case["domain"][0] * s, case["domain"][1] * s),
                    meas_pt=(case["meas_pt"][0] * s, case["meas_pt"][1] * s),
                    halo=None if case["halo"] is None else case["halo"] * s), (e, 0, 0)
    raise ValueError(kind)


def compare(S, case, kind, e, sign=1):
    """returns (ok, detail, cells compared)"""
    with np.errstate(all="ignore"):
        try:
            r0 = _fields(sc.call(S, case))
        except Exception as ex:  # the rescaled request must fail the same way
            try:
                sc.call(S, transformed(case, kind, e, sign)[0])
            except Exception as ex2:
                return (type(ex) is type(ex2)), "error outcomes %r vs %r" % (ex, ex2), 0
            return False, "unscaled request raises %r, rescaled one does not" % (ex,), 0
        c1, (ec, ep, ef) = transformed(case, kind, e, sign)
        r1 = _fields(sc.call(S, c1))
    cells = 0
    for name, A0, A1, ex in [("X", r0[0][0], r1[0][0], ec), ("Y", r0[0][1], r1[0][1], ec), ("Z", r0[0][2], r1[0][2], ec),
                             ("conc", r0[1], r1[1], ep), ("flx", r0[2], r1[2], ef)]:
        if A0.dtype != A1.dtype or A0.shape != A1.shape:
            return False, "%s: shape/dtype differ" % name, cells
        back = A1 * _pow2(A1.dtype, -ex) if ex else A1
        if sign < 0 and name in ("conc", "flx"):
            back = -back
        ok, d, n = _same_bits(back, A0, A0)
        cells += n
        if not ok:
            return False, "%s of the %s-rescaled request (%s2^%d) is not the exact power-of-two multiple: %s" % (name, kind, "-" if sign < 0 else "", e, d), cells
    return True, "", cells


def factors(case, kind):
    """(sign, exponent) pairs; the negative factor only for the source scaling (C04 is stated for every s != 0)"""
    sg = -1 if kind == "source" else 1
    if case["precision"] == "single":
        return ((1, 20), (sg, -10))
    return ((1, -40), (sg, 30)) if kind == "source" else ((1, -20), (1, 7))


def observe(ctx, prop, cases, kinds, theorem_of, limit):
    """run the comparison on up to `limit` of the check's own cases; record in the evidence; fail on any mismatch"""
    S = sc.impl()
    done = 0
    cells = 0
    bad = 0
    per_kind = {k: 0 for k in kinds}
    for case in cases:
        if done >= limit:
            break
        ran = False
        for kind in kinds:
            if kind == "source" and case["footprint"]:
                continue
            for sign, e in factors(case, kind):
                ok, detail, n = compare(S, case, kind, e, sign)
                cells += n
                per_kind[kind] += 1
                ran = True
                if not ok:
                    bad += 1
                    ctx.fail("correspondence", "%s:rounded-%s-scaling:case-%d" % (prop, kind, done),
                             "predicted by %s, observed on the code: %s" % (theorem_of[kind], detail),
                             hint={"case": sc.full(case), "rounded": {"kind": kind, "e": e, "sign": sign}})
        done += ran
    ctx.obligation("observed:power-of-two-scaling-is-bit-exact", bad == 0,
                   "%d comparisons differ" % bad if bad else "")
    ctx.cov["rounded_arithmetic"] = {
        "theorems": sorted(set(theorem_of[k] for k in kinds)),
        "prediction": "a request rescaled by 2^e has the result rescaled by exact powers of two (bit-identical after the exact rescaling); proved for Model/Solver.v over RndOps with any rounding homogeneous for 2^e, no field laws",
        "observed_on_code": {"cases": done, "comparisons": per_kind, "cells_compared_bitwise": cells, "mismatching_comparisons": bad},
        "rule": "the check's own generated cases (first %d), factors %s (double) / 2^20, (-)2^-10 (single); cells outside [tiny*2^64, max/2^64] of the result dtype are skipped (the theorem has no exponent bounds)" % (limit, "2^-40 and -2^30 source, 2^-20 and 2^7 velocity/length"),
    }
