"""Independent reference for C01: per-mode transfer functions of the continuous boundary-value
problem  P' = -Q/Kz, Q' = T P,  Q(z0) = 1,  decaying constant-coefficient continuation above
the top node, by integrating the Riccati equation for A = P/Q downward from the top with
scipy (DOP853, rtol 1e-11)."""
import math

import numpy as np
from scipy.integrate import solve_ivp


def families(rng):
    """smooth positive profile family: returns dict of callables and a description"""
    ang = rng.uniform(0, 2 * math.pi)
    U = rng.choice([0.0, 1.0, 2.5])
    z0 = rng.choice([0.05, 0.1, 0.3])
    wind = rng.choice(["log", "power"])
    kk = rng.choice(["linear", "power", "most"])
    k0 = rng.choice([0.2, 0.4])
    ax, ay = rng.choice([(1.0, 1.0), (0.5, 1.5), (2.0, 0.7)])
    L = rng.choice([-20.0, 50.0, 1e9])

    def spd(z):
        if wind == "log":
            return U * np.log(z / z0 + 1.0) / math.log(3.0 / z0 + 1.0)
        return U * (z / 3.0) ** 0.25

    def Kz(z):
        if kk == "linear":
            return k0 * (z + 0.1)
        if kk == "power":
            return k0 * (z + 0.05) ** 0.8
        x = z / L
        phi = 1.0 + 5.0 * x if L > 0 else (1.0 - 16.0 * x) ** -0.5
        return 0.4 * 0.5 * z / phi + 0.02

    return dict(z0=z0, u=lambda z: spd(z) * math.cos(ang), v=lambda z: spd(z) * math.sin(ang),
                Kx=lambda z: ax * Kz(z), Ky=lambda z: ay * Kz(z), Kz=Kz,
                desc=dict(z0=z0, U=U, ang=ang, wind=wind, K=kk, k0=k0, ax=ax, ay=ay, L=L))


def grid(z0, zt, n, stretched):
    s = np.linspace(0.0, 1.0, n + 1)
    if stretched:
        s = (np.exp(1.5 * s) - 1.0) / (math.exp(1.5) - 1.0)
    return z0 + (zt - z0) * s


def exact_transfer(f, lx, ly, zt, zs):
    """(P, Q) at heights zs for Q(z0) = 1"""
    z0 = f["z0"]

    def T(z):
        return -(f["Kx"](z) * lx**2 + f["Ky"](z) * ly**2) - 1j * (f["u"](z) * lx + f["v"](z) * ly)

    lamt = np.sqrt(-T(zt) / f["Kz"](zt))

    def rhs(z, y):
        A = y[0]
        return [-1.0 / f["Kz"](z) - T(z) * A * A, T(z) * A]

    sol = solve_ivp(rhs, (zt, z0), [1.0 / (f["Kz"](zt) * lamt) + 0j, 0j], method="DOP853", rtol=1e-11, atol=1e-14,
                    dense_output=True)
    out = []
    A0, lq0 = sol.sol(z0)
    for z in zs:
        A, lq = sol.sol(z)
        Q = np.exp(lq - lq0)
        out.append((A * Q, Q))
    return out


def solver_transfer(S, f, zt, n, stretched, nx, ny, dx, dy, frac_levels):
    z = grid(f["z0"], zt, n, stretched)
    prof = tuple(np.array([f[k](zz) for zz in z]) for k in ("u", "v", "Kx", "Ky", "Kz"))
    q = np.zeros((ny, nx))
    q[0, 0] = 1.0
    levels = [int(round(fr * n)) for fr in frac_levels]
    (_, _, Z), conc, flx = S.steady_state_transport_solver(q, z, prof, (nx * dx, ny * dy), levels, modes=(nx, ny), halo=0.0,
                                                           precision="double")
    conc = np.asarray(conc, float).reshape(len(levels), ny, nx)
    flx = np.asarray(flx, float).reshape(len(levels), ny, nx)
    qh = np.fft.fft2(q)
    return z, levels, np.fft.fft2(conc, axes=(1, 2)) / qh, np.fft.fft2(flx, axes=(1, 2)) / qh


def modes_list(nx, ny, dx, dy):
    out = []
    for ty in range(ny):
        for tx in range(nx):
            if (tx, ty) == (0, 0) or tx == nx // 2 and nx % 2 == 0 or ty == ny // 2 and ny % 2 == 0:
                continue
            kx = 2 * math.pi * np.fft.fftfreq(nx, d=dx)[tx]
            ky = 2 * math.pi * np.fft.fftfreq(ny, d=dy)[ty]
            out.append((tx, ty, kx, ky))
    return out


def study(S, f, zt, n0, stretched, nx, ny, dx, dy, frac_levels=(1.0, 0.5)):  # measurement height first
    """returns per (mode, level, field) the errors at n0, 4n0, 16n0 for resolved, bounded-growth modes"""
    res = []
    runs = [solver_transfer(S, f, zt, n, stretched, nx, ny, dx, dy, frac_levels) for n in (n0, 4 * n0, 16 * n0)]
    z_c = runs[0][0]
    dz_c = np.diff(z_c)
    for (tx, ty, kx, ky) in modes_list(nx, ny, dx, dy):
        Tn = np.array([-(f["Kx"](zz) * kx**2 + f["Ky"](zz) * ky**2) - 1j * (f["u"](zz) * kx + f["v"](zz) * ky) for zz in z_c])
        Kzn = np.array([f["Kz"](zz) for zz in z_c])
        if np.max(np.abs(Tn[:-1]) * dz_c**2 / Kzn[:-1]) > 1.0:
            continue
        if np.sum(np.sqrt(-Tn[:-1] / Kzn[:-1]).real * dz_c) > 18.0:
            continue
        zs = [runs[0][0][l] for l in runs[0][1]]
        ex = exact_transfer(f, kx, ky, zt, zs)
        for li in range(len(zs)):
            for name, idx, e in (("P", 2, ex[li][0]), ("Q", 3, ex[li][1])):
                errs = [abs(r[idx][li, ty, tx] - e) / max(abs(e), 1e-300) for r in runs]
                res.append(dict(mode=(tx, ty), level=li, field=name, errs=errs, mag=abs(e)))
    return res, float(np.max(dz_c) / (zt - f["z0"]))
