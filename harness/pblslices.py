"""Slices of bldfm/pbl_model.py and of the stability-function copies in
bldfm/ffm_kormann_meixner.py, re-extracted on every run into Gen/GenPbl.v (R backend), and the
bridge file Bridge/PblBridge.v that re-proves gen_x = Model.Pbl.x for all arguments.

Statements that are not scalar formulas (np.arange, the aliasing `Kx = Ky = Kz = K`, the branch
structure, the interface's call) are tied by `structure()` below: a fail-closed comparison of the
unparsed AST of exactly those statements with the text the model was written from."""
import ast
import os

import core
import py2coq

PBL = lambda: os.path.join(core.SRC, "bldfm", "pbl_model.py")
KM = lambda: os.path.join(core.SRC, "bldfm", "ffm_kormann_meixner.py")
ITF = lambda: os.path.join(core.SRC, "bldfm", "interface.py")
VP = "vertical_profiles"
CALLS = {"psi": "gen_psi", "phi": "gen_phi"}

# occurrence indices follow the source order of the assignments inside vertical_profiles:
#   z0   #0 ustar-given branch, #1 OAAHOC            absum #0 top, #1 OAAHOC (duplicate)
#   u,v  #0 CONSTANT, #1 MOST, #2 MOSTM, #3 OAAHOC   absu  #0 MOST, #1 MOSTM, #2 OAAHOC
#   K    #0 CONSTANT, #1 MOST, #2 MOSTM, #3 OAAHOC   Kx,Ky #0 MOSTM (the only single-target ones)
PBL_SLICES = [
    dict(name="psi", func="psi", target="return", inline=["xi"], params=["x"]),
    dict(name="phi", func="phi", target="return", params=["x"]),
    dict(name="absum", func=VP, target="absum", occ=0, params=["um", "vm"]),
    dict(name="absum_oaahoc", func=VP, target="absum", occ=1, params=["um", "vm"]),
    dict(name="z0_of_ustar", func=VP, target="z0", occ=0, inline=["kap"], calls=CALLS, params=["zm", "absum", "ustar", "mol"]),
    dict(name="ustar_of_z0", func=VP, target="ustar", occ=0, inline=["kap"], calls=CALLS, params=["absum", "zm", "z0", "mol"]),
    dict(name="z0_oaahoc", func=VP, target="z0", occ=1, inline=["cm", "cl"], params=["zm", "absum", "tke", "ustar"]),
    dict(name="h_default", func=VP, target="h", occ=0, params=["meas_height"]),
    dict(name="h_given", func=VP, target="h", occ=1, params=["stretch"]),
    dict(name="zmx_default", func=VP, target="zmx", occ=0, params=["meas_height"]),
    dict(name="zmx_given", func=VP, target="zmx", occ=1, params=["domain_height"]),
    dict(name="zm_is_meas_height", func=VP, target="zm", occ=0, params=["meas_height"]),
    dict(name="bb", func=VP, target="bb", params=["zm", "z0", "h"]),
    dict(name="aa", func=VP, target="aa", params=["bb", "z0", "h"]),
    dict(name="zetamx", func=VP, target="zetamx", params=["aa", "bb", "zmx", "h"]),
    dict(name="dzeta", func=VP, target="dzeta", params=["zm", "n"]),
    dict(name="z_of_zeta", func=VP, target="z", params=["h", "zeta", "aa", "bb"]),
    # CONSTANT
    dict(name="Km", func=VP, target="Km", inline=["kap"], params=["ustar", "zm", "prsc"]),
    dict(name="u_const", func=VP, target="u", occ=0, params=["um"]),
    dict(name="v_const", func=VP, target="v", occ=0, params=["vm"]),
    dict(name="K_const", func=VP, target="K", occ=0, params=["Km"]),
    # MOST
    dict(name="absu_most", func=VP, target="absu", occ=0, inline=["kap"], calls=CALLS, params=["ustar", "z", "z0", "mol"]),
    dict(name="u_most", func=VP, target="u", occ=1, params=["um", "absum", "absu"]),
    dict(name="v_most", func=VP, target="v", occ=1, params=["vm", "absum", "absu"]),
    dict(name="K_most", func=VP, target="K", occ=1, inline=["kap"], calls=CALLS, params=["ustar", "z", "mol", "prsc"]),
    # MOSTM
    dict(name="absu_mostm", func=VP, target="absu", occ=1, inline=["kap"], calls=CALLS, params=["ustar", "z", "z0", "mol"]),
    dict(name="u_mostm", func=VP, target="u", occ=2, params=["um", "absum", "absu"]),
    dict(name="v_mostm", func=VP, target="v", occ=2, params=["vm", "absum", "absu"]),
    dict(name="K_mostm", func=VP, target="K", occ=2, inline=["kap"], calls=CALLS, params=["ustar", "z", "mol", "prsc"]),
    dict(name="Kx_mostm", func=VP, target="Kx", occ=0, params=["K", "u", "v"]),
    dict(name="Ky_mostm", func=VP, target="Ky", occ=0, params=["K", "u", "v"]),
    dict(name="Kz_mostm", func=VP, target="Kz", occ=0, params=["K"]),
    # OAAHOC
    dict(name="absu_oaahoc", func=VP, target="absu", occ=2, inline=["cm", "cl"], params=["ustar", "tke", "z", "z0"]),
    dict(name="u_oaahoc", func=VP, target="u", occ=3, params=["um", "absum", "absu"]),
    dict(name="v_oaahoc", func=VP, target="v", occ=3, params=["vm", "absum", "absu"]),
    dict(name="K_oaahoc", func=VP, target="K", occ=3, inline=["ch", "cl"], params=["z", "tke"]),
]

# masked stores: value = if L >= 0 then <stable> else if L < 0 then <unstable> else 0
KM_SLICES = [
    dict(name="km_phiM", func="_phiM", target="phi_m", masked=True, params=["zm", "mo_len"]),
    dict(name="km_phiC", func="_phiC", target="phi_c", masked=True, params=["zm", "mo_len"]),
    dict(name="km_psiM", func="_psiM", target="psi_m", masked=True, inline=["inv_phi_m"], params=["zm", "mo_len"]),
]


def generate():
    a = py2coq.translate(PBL(), PBL_SLICES, "R")
    b = py2coq.translate(KM(), KM_SLICES, "R")
    # one file: drop the second header
    head = "From Coq Require Import Reals.\nOpen Scope R_scope.\n"
    assert a.startswith(head) and b.startswith(head)
    return a + "\n(* --- ffm_kormann_meixner.py *)\n" + b[len(head):]


# ---------------------------------------------------------------------------------------------
# structure: the statements the translator cannot express


def _fn(path, name):
    import astnorm
    tree = astnorm.parse_file(path)  # the same reading of the module as py2coq.translate (harness/astnorm.py)
    return py2coq.find_function(tree, name)


def _closure_branches(fn):
    """{closure name(s): [unparsed statements]} of the SECOND if-chain on `closure` (the profile formulas)."""
    chains = []
    for st in fn.body:
        if isinstance(st, ast.If) and "closure ==" in ast.unparse(st.test):
            chains.append(st)
    if len(chains) != 2:
        raise py2coq.TranslateError("expected two if-chains on `closure` in vertical_profiles, found %d" % len(chains))
    out = []
    for chain in chains:
        br = {}
        node = chain
        while True:
            br[ast.unparse(node.test)] = [ast.unparse(s) for s in node.body]
            if len(node.orelse) == 1 and isinstance(node.orelse[0], ast.If):
                node = node.orelse[0]
            else:
                br["else"] = [ast.unparse(s).split("(")[0] for s in node.orelse]
                break
        out.append(br)
    return out


EXPECT_FIRST = {
    "closure == 'CONSTANT' or closure == 'MOST' or closure == 'MOSTM'": None,  # checked structurally below
    "closure == 'OAAHOC'": None,
    "else": ["raise ValueError"],
}

# non-scalar statements of each profile branch (the scalar ones are slices)
EXPECT_SECOND_GLUE = {
    "closure == 'CONSTANT'": ["Kx = Ky = Kz = K"],
    "closure == 'MOST'": ["Kx = Ky = Kz = K"],
    "closure == 'MOSTM'": [],
    "closure == 'OAAHOC'": ["Kx = Ky = Kz = K"],
    "else": ["raise ValueError"],
}
SLICED_TARGETS = {"Km", "u", "v", "K", "absu", "Kx", "Ky", "Kz"}


def structure():
    """returns a list of (name, ok, detail)"""
    res = []

    def chk(name, ok, detail=""):
        res.append((name, bool(ok), detail))

    fn = _fn(PBL(), VP)
    first, second = _closure_branches(fn)
    chk("structure:first-chain-branches", list(first) == list(EXPECT_FIRST), str(list(first)))
    b0 = first.get("closure == 'CONSTANT' or closure == 'MOST' or closure == 'MOSTM'", [])
    # if z0 is None: z0 = ...   elif ustar is None: ustar = ...   else: raise
    ok = len(b0) == 1 and b0[0].startswith("if z0 is None:\n    z0 = ") and "\nelif ustar is None:\n    ustar = " in b0[0] \
        and b0[0].rstrip().endswith("raise ValueError(f'Either z0 or ustar must be provided.')") and b0[0].count("\n") == 5
    chk("structure:z0-ustar-branch", ok, b0[0] if b0 else "")
    b1 = first.get("closure == 'OAAHOC'", [])
    want = ["cl = 0.845", "cm = 0.0856", "ch = 0.204",
            "if tke is None:\n    logger.warning('No tke provided. Setting TKE to 1.0.')\n    tke = 1.0",
            "tke = np.array(tke)[..., np.newaxis]"]
    got = [s for s in b1 if not (s.startswith("absum = ") or s.startswith("z0 = "))]
    chk("structure:oaahoc-constants", got == want and len(b1) == len(want) + 2, str(b1))
    for test, glue in EXPECT_SECOND_GLUE.items():
        body = second.get(test)
        if body is None:
            chk("structure:profile-branch " + test, False, "branch missing: %r" % list(second))
            continue
        if test == "else":
            chk("structure:profile-branch else", body == glue, str(body))
            continue
        rest = []
        for s in body:
            try:
                node = ast.parse(s).body[0]
            except SyntaxError:
                rest.append(s)
                continue
            if isinstance(node, ast.Assign) and len(node.targets) == 1 and isinstance(node.targets[0], ast.Name) \
                    and node.targets[0].id in SLICED_TARGETS:
                continue
            rest.append(s)
        chk("structure:profile-branch " + test, rest == glue, "non-slice statements %r, expected %r" % (rest, glue))
    # grid statements
    stm = {}
    for st in ast.walk(fn):
        if isinstance(st, ast.Assign) and len(st.targets) == 1 and isinstance(st.targets[0], ast.Name):
            stm.setdefault(st.targets[0].id, []).append(ast.unparse(st.value))
        if isinstance(st, ast.Return):
            stm.setdefault("return", []).append(ast.unparse(st.value))
    chk("structure:arange", stm.get("zeta") == ["np.arange(0.0, np.squeeze(zetamx).item() + dzeta, dzeta)"], str(stm.get("zeta")))
    chk("structure:return", stm.get("return") == ["(z, (u, v, Kx, Ky, Kz))"], str(stm.get("return")))
    chk("structure:unpack", "zm, (um, vm) = (meas_height, wind)" in [ast.unparse(s) for s in fn.body], "")
    # stretch / domain_height defaults
    ifs = [ast.unparse(s) for s in fn.body if isinstance(s, ast.If)]
    chk("structure:stretch-default", "if stretch is None:\n    h = 2.0 * meas_height\nelse:\n    h = stretch" in ifs, "")
    chk("structure:domain-default", "if domain_height is None:\n    zmx = 2.0 * meas_height\nelse:\n    zmx = domain_height" in ifs, "")
    args = [a.arg for a in fn.args.args]
    defaults = [ast.unparse(d) for d in fn.args.defaults]
    chk("structure:signature", args == ["n", "meas_height", "wind", "ustar", "z0", "mol", "prsc", "closure", "domain_height", "stretch", "z0_min", "z0_max", "tke"]
        and defaults == ["None", "None", "1000000000.0", "1.0", "'MOST'", "None", "None", "0.001", "2.0", "None"], "%r %r" % (args, defaults))
    # interface: n = dom.nz, meas_height = tower.z_m, no stretch/domain_height; default level = dom.nz
    itf = _fn(ITF(), "run_bldfm_single")
    calls = [c for c in ast.walk(itf) if isinstance(c, ast.Call) and ast.unparse(c.func) == "vertical_profiles"]
    okc = len(calls) >= 1
    for c in calls:
        kw = {k.arg: ast.unparse(k.value) for k in c.keywords}
        okc = okc and not c.args and kw.get("n") == "dom.nz" and kw.get("meas_height") == "tower.z_m" \
            and "stretch" not in kw and "domain_height" not in kw and "prsc" not in kw and "tke" not in kw
    chk("structure:interface-call", okc, "; ".join(ast.unparse(c) for c in calls))
    lv = [ast.unparse(s) for s in ast.walk(itf) if isinstance(s, ast.If)]
    chk("structure:interface-level",
        any(s.startswith("if dom.output_levels:\n    levels = dom.output_levels\nelif dom.full_output:\n    levels = list(range(dom.nz + 1))\nelse:\n    levels = dom.nz") for s in lv),
        "")
    return res


def run(ctx):
    """translate + compile + bridge + structure; registers proof obligations on ctx"""
    import skeleton
    nm = skeleton.slice_names(PBL_SLICES)
    skeleton.check_names(ctx, "pbl", PBL(), [VP, "psi", "phi"], nm)
    skeleton.check_names(ctx, "km_copies", KM(), ["_phiM", "_phiC", "_psiM"], skeleton.slice_names(KM_SLICES))
    try:
        text = generate()
    except py2coq.TranslateError as e:
        ctx.obligation("gen:GenPbl.v", False, "slice translator failed closed: %s" % e)
        text = None
    ok = False
    if text is not None:
        ctx.cov["slices_translated"] = ctx.cov.get("slices_translated", 0) + len(PBL_SLICES) + len(KM_SLICES)
        ok = core.run_bridge(ctx, {"GenPbl.v": text}, ["PblBridge.v"])
    try:
        for name, good, detail in structure():
            ctx.obligation(name, good, detail)
            ok = ok and good
    except Exception as e:  # fail closed
        ctx.obligation("structure:parse", False, repr(e))
        ok = False
    return ok
