"""bin/replay <file>: re-run a replay file against the implementation and print what is measured."""
import importlib
import json
import os
import sys

import core


def main(argv):
    body = json.load(open(argv[1]))
    prop = body["property"]
    mod = importlib.import_module("props." + prop.lower())
    print("replay of %s: %s" % (prop, body.get("what", "")))
    if "broken" in body:
        print("proof obligations / correspondence cases that no longer check:")
        for b in body["broken"]:
            print("  -", b.get("kind"), b.get("name"))
    if "stress" in body:
        import solvercorr
        os.makedirs(os.path.join(core.VERIF, "build", "replay"), exist_ok=True)
        os.chdir(os.path.join(core.VERIF, "build", "replay"))
        return solvercorr.stress_replay(body)
    if hasattr(mod, "replay"):
        os.makedirs(os.path.join(core.VERIF, "build", "replay"), exist_ok=True)
        os.chdir(os.path.join(core.VERIF, "build", "replay"))
        return mod.replay(body)
    print(json.dumps(body, indent=1)[:3000])
    return 0
