"""Whole-function translator (tie B) for bldfm/ffm_kormann_meixner.py: the control structure of `estimateZ0`
(length check, raw z0, outlier cut, early exit, the `for kk in range(360)` smoothing loop with its unwrapping
branches, window mask, nanmedian, store into the records of bin kk) and the top-level flow of `estimateFootprint`
(grid construction, early exit on U < 0 with its warning and zero field, rotation by wd incl. wd=None, receptor
shift, masked upwind computation, return tuple) -> descriptions over the carriers of Model/KMDesc.v
(`build/<id>/GenKMFun.v`), bridged per run by Bridge/KMFunBridge.v.

ONE symbolic walk of each function body in source order, FAIL CLOSED (TranslateError -> obligation
gen:GenKMFun.v).  Every local is carried as its defining expression:
  estimateZ0         arrays are indexed by the observation; an array local is an elementwise expression over the
                     observation record (zm, ws, wd, ustar, mo_len at that index), the loop variable kk and
                     half_wd_win; nan is None (an array that received nan is `option R`-valued);
  estimateFootprint  arrays are indexed by the cell [i, j]; an array local is an elementwise expression over the
                     arguments of the call and (i, j).
Re-binding, `x.copy()`, `np.where`, masked stores `a[m] = e` (= where(m, e, a); only into arrays the function
owns: never into a parameter or an aliased array), scalar `if/elif/else` (both arms walked, environments merged by
conditional expressions) are followed; the formulas themselves are translated by py2coq.Emitter (the slice
translator's expression fragment; helper calls refer to GenKM's gen_psiM ... — nothing is duplicated).
What is NOT followed and therefore raises: while, break/continue, augmented assignment, stores into parameters /
aliased arrays / arrays defined outside the loop (other than the one median store that ends the loop body), a read
of the result array inside the loop, re-binding of an outer name inside the loop, any call outside the fragment,
a second early exit, non-literal range bounds.
"""
import ast
import os

import core
import py2coq
from py2coq import TranslateError

KMFILE = lambda: os.path.join(core.SRC, "bldfm", "ffm_kormann_meixner.py")
HELPERS = {"_phiM": ("gen_phiM", 2), "_phiC": ("gen_phiC", 2), "_psiM": ("gen_psiM", 2), "_nParam": ("gen_nParam", 2),
           "_mParam": ("gen_mParam", 4)}
MODCONSTS = {"von_karman": "gen_von_karman"}


class V:
    """symbolic value: kind in S (real scalar), A (real array), O (option-real array), B (bool array), SB (scalar
    bool), LEN (len of a parameter), STR (message text), VEC (np.arange), NONE, TUP"""

    def __init__(self, kind, text=None, owned=False, extra=None):
        self.kind, self.text, self.owned, self.extra = kind, text, owned, extra

    def same(self, o):
        return self.kind == o.kind and self.text == o.text and self.extra == o.extra


def _fn(node):
    return ast.unparse(node.func) if isinstance(node, ast.Call) else None


def _is_nan(node):
    return isinstance(node, ast.Attribute) and ast.unparse(node) in ("np.nan", "numpy.nan", "np.NaN", "math.nan")


class Walker:
    REAL = ("S", "A")

    def __init__(self, fname):
        self.fname = fname
        self.notes = {}

    def count(self, what):
        self.notes[what] = self.notes.get(what, 0) + 1

    # ---- expressions ------------------------------------------------------------------------
    def emitter(self, env, mask_text=None):
        consts = dict(MODCONSTS)
        for n, v in env.items():
            if v.kind in self.REAL:
                consts[n] = v.text
        em = py2coq.Emitter("R", {}, [], consts=consts)
        em.km = True
        em.helpers = {k: v[0] for k, v in HELPERS.items()}
        em.helper_arity = {k: v[1] for k, v in HELPERS.items()}
        em.mask_text = mask_text
        return em

    def names_kinds(self, node, env):
        ks = set()
        for n in ast.walk(node):
            if isinstance(n, ast.Name) and n.id in env:
                ks.add(env[n.id].kind)
        return ks

    def real(self, node, env, mask_text=None):
        """arithmetic expression -> V of kind S or A"""
        for n in ast.walk(node):
            if isinstance(n, ast.Name) and n.id in env and env[n.id].kind not in self.REAL and not (
                    mask_text is not None and env[n.id].kind in ("B",)):
                raise TranslateError("%s: %s (a %s value) inside the arithmetic expression %s" % (self.fname, n.id, env[n.id].kind, ast.unparse(node)))
        em = self.emitter(env, mask_text)
        text = em.expr(node)
        unknown = [f for f in em.free]
        if unknown:
            raise TranslateError("%s: names %r in `%s` have no definition the translator follows" % (self.fname, unknown, ast.unparse(node)))
        kind = "A" if "A" in self.names_kinds(node, env) else "S"
        return V(kind, text, owned=True)

    def is_boolish(self, node, env):
        if isinstance(node, ast.Compare):
            return True
        if isinstance(node, ast.Call) and _fn(node) in ("np.logical_and", "np.logical_or", "np.logical_not"):
            return True
        if isinstance(node, ast.BoolOp):
            return True
        if isinstance(node, ast.BinOp) and isinstance(node.op, (ast.BitAnd, ast.BitOr)):
            return True
        if isinstance(node, ast.UnaryOp) and isinstance(node.op, (ast.Invert, ast.Not)):
            return True
        if isinstance(node, ast.Name) and node.id in env and env[node.id].kind in ("B", "SB"):
            return True
        return False

    def boolean(self, node, env):
        """-> (text usable after Coq's `if`, is_array)"""
        if isinstance(node, ast.Name) and node.id in env and env[node.id].kind in ("B", "SB"):
            return env[node.id].text, env[node.id].kind == "B"
        if isinstance(node, ast.Compare):
            if len(node.ops) != 1:
                raise TranslateError("%s: chained comparison %s" % (self.fname, ast.unparse(node)))
            for side in (node.left, node.comparators[0]):
                self.real(side, env)
            em = self.emitter(env)
            text = em.cond(node)
            if em.free:
                raise TranslateError("%s: names %r in `%s` have no definition the translator follows" % (self.fname, em.free, ast.unparse(node)))
            return text, "A" in self.names_kinds(node, env)
        f = _fn(node)
        two = None
        if f in ("np.logical_and", "np.logical_or") and len(node.args) == 2 and not node.keywords:
            two = (f == "np.logical_and", node.args[0], node.args[1])
        elif isinstance(node, ast.BinOp) and isinstance(node.op, (ast.BitAnd, ast.BitOr)):
            two = (isinstance(node.op, ast.BitAnd), node.left, node.right)
        elif isinstance(node, ast.BoolOp) and len(node.values) == 2:
            two = (isinstance(node.op, ast.And), node.values[0], node.values[1])
        if two is not None:
            conj, a, b = two
            (ta, aa), (tb, ab) = self.boolean(a, env), self.boolean(b, env)
            if isinstance(node, ast.BoolOp) and (aa or ab):
                raise TranslateError("%s: `and`/`or` of arrays" % self.fname)
            tb = "(if %s then true else false)" % tb
            return ("(if %s then %s else false)" % (ta, tb)) if conj else ("(if %s then true else %s)" % (ta, tb)), aa or ab
        if (f == "np.logical_not" and len(node.args) == 1) or (isinstance(node, ast.UnaryOp) and isinstance(node.op, (ast.Invert, ast.Not))):
            t, arr = self.boolean(node.args[0] if f else node.operand, env)
            return "(if %s then false else true)" % t, arr
        raise TranslateError("%s: condition %s not in the accepted syntax" % (self.fname, ast.unparse(node)))

    def boolval(self, node, env):
        t, arr = self.boolean(node, env)
        if isinstance(node, ast.Name):
            return V("B" if arr else "SB", t)
        return V("B" if arr else "SB", "(if %s then true else false)" % t if not t.startswith("(if ") else t)

    def lift(self, v):
        if v.kind == "O":
            return v.text
        if v.kind == "A":
            return "(Some %s)" % v.text
        raise TranslateError("%s: a %s value where an array is expected" % (self.fname, v.kind))

    def copy_of(self, node, env):
        """x.copy() / np.copy(x) / np.array(x) of an array local -> that local's V (owned)"""
        src = None
        if isinstance(node, ast.Call) and isinstance(node.func, ast.Attribute) and node.func.attr == "copy" and not node.args \
                and not node.keywords and isinstance(node.func.value, ast.Name):
            src = node.func.value.id
        elif _fn(node) in ("np.copy", "np.array") and len(node.args) == 1 and not node.keywords and isinstance(node.args[0], ast.Name):
            src = node.args[0].id
        if src is not None and src in env and env[src].kind in ("A", "O"):
            return V(env[src].kind, env[src].text, owned=True)
        return None

    def nan_array(self, node, env):
        """np.zeros_like(x) + np.nan | np.nan + np.zeros_like(x) | np.full_like(x, np.nan) -> constant nan array"""
        def zl(n):
            return _fn(n) == "np.zeros_like" and len(n.args) == 1 and not n.keywords and isinstance(n.args[0], ast.Name) \
                and n.args[0].id in env and env[n.args[0].id].kind in ("A", "O")
        if isinstance(node, ast.BinOp) and isinstance(node.op, ast.Add) and ((zl(node.left) and _is_nan(node.right)) or (_is_nan(node.left) and zl(node.right))):
            return V("O", "None", owned=True)
        if _fn(node) == "np.full_like" and len(node.args) == 2 and not node.keywords and isinstance(node.args[0], ast.Name) \
                and node.args[0].id in env and env[node.args[0].id].kind in ("A", "O") and _is_nan(node.args[1]):
            return V("O", "None", owned=True)
        return None

    def value(self, node, env):
        """right-hand side of an assignment"""
        if isinstance(node, ast.Name):
            if node.id not in env:
                if node.id in MODCONSTS:
                    return V("S", MODCONSTS[node.id])
                raise TranslateError("%s: name %s has no definition the translator follows" % (self.fname, node.id))
            v = env[node.id]
            if v.kind in ("A", "O"):
                # alias: neither name may be stored into from now on
                v.owned = False
                return V(v.kind, v.text, owned=False)
            return v
        c = self.copy_of(node, env)
        if c is not None:
            return c
        n = self.nan_array(node, env)
        if n is not None:
            return n
        if _fn(node) == "np.zeros_like" and len(node.args) == 1 and not node.keywords and isinstance(node.args[0], ast.Name) \
                and node.args[0].id in env and env[node.args[0].id].kind == "A":
            return V("A", "0", owned=True)
        if _fn(node) == "len" and len(node.args) == 1 and isinstance(node.args[0], ast.Name):
            nm = node.args[0].id
            if nm in getattr(self, "array_params", ()) and env.get(nm) is self.param_vals.get(nm):
                return V("LEN", nm)
            raise TranslateError("%s: len(%s)" % (self.fname, nm))
        if self.is_boolish(node, env):
            return self.boolval(node, env)
        return self.real(node, env)

    def masked_store(self, name, mask, rhs, env):
        if name not in env or env[name].kind not in ("A", "O"):
            raise TranslateError("%s: masked store into %s, which is not an array local" % (self.fname, name))
        old = env[name]
        if not old.owned:
            raise TranslateError("%s: store into %s, a parameter or an aliased array (the caller's / another name's data would change)" % (self.fname, name))
        mt, arr = self.boolean(mask, env)
        if not arr:
            raise TranslateError("%s: store %s[%s] with a scalar mask" % (self.fname, name, ast.unparse(mask)))
        mask_text = ast.unparse(mask)
        if _is_nan(rhs):
            return V("O", "(if %s then None else %s)" % (mt, self.lift(old)), owned=True)
        new = self.real(rhs, env, mask_text=mask_text)
        if old.kind == "O":
            return V("O", "(if %s then (Some %s) else %s)" % (mt, new.text, old.text), owned=True)
        return V("A", "(if %s then %s else %s)" % (mt, new.text, old.text), owned=True)

    def merge(self, cond_text, e1, e2, fmt=None):
        fmt = fmt or (lambda t1, t2: "(if %s then %s else %s)" % (cond_text, t1, t2))
        out = {}
        for n in e1:
            if n not in e2:
                continue
            a, b = e1[n], e2[n]
            if a is b or a.same(b):
                a.owned = a.owned and b.owned
                out[n] = a
                continue
            if a.kind != b.kind:
                if {a.kind, b.kind} == {"A", "O"}:
                    out[n] = V("O", fmt(self.lift(a), self.lift(b)), owned=a.owned and b.owned)
                continue
            if a.kind not in ("S", "A", "O", "B", "SB"):
                continue
            out[n] = V(a.kind, fmt(a.text, b.text), owned=a.owned and b.owned)
        return out

    @staticmethod
    def fork(env):
        return {n: (V(v.kind, v.text, v.owned, v.extra) if v.kind in ("A", "O") else v) for n, v in env.items()}


# ================================================================================================
# estimateZ0


class Z0Walker(Walker):
    PARAMS = ["zm", "ws", "wd", "ustar", "mo_len", "half_wd_win"]
    ATOMS = {"zm": "(o_zm o)", "ws": "(o_ws o)", "wd": "(o_wd o)", "ustar": "(o_ustar o)", "mo_len": "(o_L o)"}
    ZPAR = {"ws": "PWs", "wd": "PWd", "ustar": "PUstar", "mo_len": "PL"}

    def __init__(self):
        super().__init__("estimateZ0")
        self.array_params = list(self.ATOMS)
        self.checked = []
        self.early = None      # (bool text, O text)
        self.loop = None       # dict
        self.returned = None

    def run(self, fn):
        args = [a.arg for a in fn.args.args]
        if args != self.PARAMS or fn.args.vararg or fn.args.kwarg or fn.args.kwonlyargs or fn.args.posonlyargs:
            raise TranslateError("estimateZ0: parameter list %r is not %r" % (args, self.PARAMS))
        if len(fn.args.defaults) != 1 or fn.decorator_list:
            raise TranslateError("estimateZ0: defaults / decorators changed")
        env = {n: V("A", t, owned=False) for n, t in self.ATOMS.items()}
        env["half_wd_win"] = V("S", "h")
        self.param_vals = dict(env)
        self.block(fn.body, env, top=True)
        if self.loop is None or self.returned is None:
            raise TranslateError("estimateZ0: no smoothing loop / no final return found")
        if self.returned != self.loop["res"]:
            raise TranslateError("estimateZ0: returns %s, the loop stores into %s" % (self.returned, self.loop["res"]))

    def length_check(self, st, env):
        """if n != len(a) or n != len(b) ...: raise RuntimeError(...)"""
        if not (len(st.body) == 1 and isinstance(st.body[0], ast.Raise) and not st.orelse):
            return False
        tests = st.test.values if isinstance(st.test, ast.BoolOp) and isinstance(st.test.op, ast.Or) else [st.test]
        got = []
        for t in tests:
            if not (isinstance(t, ast.Compare) and len(t.ops) == 1 and isinstance(t.ops[0], ast.NotEq)):
                return False
            sides = []
            for s in (t.left, t.comparators[0]):
                v = self.value(s, env)
                if v.kind != "LEN":
                    return False
                sides.append(v.text)
            if "zm" not in sides:
                return False
            other = sides[0] if sides[1] == "zm" else sides[1]
            if other not in self.ZPAR:
                return False
            got.append(self.ZPAR[other])
        exc = st.body[0].exc
        if not (isinstance(exc, ast.Call) and _fn(exc) in ("RuntimeError", "ValueError")):
            return False
        self.checked += got
        self.count("length check")
        return True

    def block(self, stmts, env, top=False, in_loop=None):
        for k, st in enumerate(stmts):
            if isinstance(st, ast.Expr) and isinstance(st.value, ast.Constant) and isinstance(st.value.value, str):
                continue
            if self.returned is not None:
                raise TranslateError("estimateZ0: statement after the final return")
            if isinstance(st, ast.Assign):
                if len(st.targets) != 1:
                    raise TranslateError("estimateZ0: chained assignment")
                t = st.targets[0]
                if isinstance(t, ast.Name):
                    if in_loop is not None and t.id in in_loop["outer"]:
                        raise TranslateError("estimateZ0: the loop body re-binds %s, defined before the loop (loop-carried state is not followed)" % t.id)
                    if t.id in self.PARAMS:
                        raise TranslateError("estimateZ0: parameter %s re-bound" % t.id)
                    env[t.id] = self.value(st.value, env)
                    self.count("assignment")
                elif isinstance(t, ast.Subscript) and isinstance(t.value, ast.Name):
                    nm = t.value.id
                    if in_loop is not None and nm in in_loop["outer"]:
                        # the one store of the loop: res[idx1] = np.nanmedian(src[idx2]); must end the body
                        if not (in_loop["depth"] == 0 and k == len(stmts) - 1):
                            raise TranslateError("estimateZ0: store into %s (defined before the loop) that does not end the loop body" % nm)
                        self.median_store(nm, t.slice, st.value, env, in_loop)
                        self.count("median store")
                    else:
                        env[nm] = self.masked_store(nm, t.slice, st.value, env)
                        self.count("masked store")
                else:
                    raise TranslateError("estimateZ0: assignment target %s" % ast.unparse(t))
            elif isinstance(st, ast.If):
                if top and self.length_check(st, env):
                    continue
                tt, arr = self.boolean(st.test, env)
                if arr:
                    raise TranslateError("estimateZ0: `if` on an array")
                if top and not st.orelse and len(st.body) == 1 and isinstance(st.body[0], ast.Return) and st.body[0].value is not None:
                    if self.early is not None or self.loop is not None:
                        raise TranslateError("estimateZ0: a second early exit / an exit after the loop")
                    rv = self.value(st.body[0].value, env)
                    self.early = ("(if %s then true else false)" % tt, self.lift(rv))
                    self.count("early exit")
                    continue
                e1, e2 = self.fork(env), self.fork(env)
                sub = None if in_loop is None else dict(in_loop, depth=in_loop["depth"] + 1)
                self.block(st.body, e1, in_loop=sub)
                self.block(st.orelse, e2, in_loop=sub)
                if self.returned is not None:
                    raise TranslateError("estimateZ0: return inside a branch")
                m = self.merge(tt, e1, e2)
                env.clear()
                env.update(m)
                self.count("scalar branch")
            elif isinstance(st, ast.For):
                if not top or self.loop is not None or st.orelse:
                    raise TranslateError("estimateZ0: a second / nested loop or for-else")
                if not (isinstance(st.target, ast.Name) and _fn(st.iter) == "range" and 1 <= len(st.iter.args) <= 2 and not st.iter.keywords
                        and all(isinstance(a, ast.Constant) and type(a.value) is int for a in st.iter.args)):
                    raise TranslateError("estimateZ0: loop header `for %s in %s` (literal range of one name expected)" % (ast.unparse(st.target), ast.unparse(st.iter)))
                bounds = [a.value for a in st.iter.args]
                lo, hi = (0, bounds[0]) if len(bounds) == 1 else bounds
                kk = st.target.id
                if kk in env:
                    raise TranslateError("estimateZ0: loop variable %s shadows a name" % kk)
                for n in ast.walk(st):
                    if isinstance(n, (ast.Break, ast.Continue, ast.While, ast.Return, ast.AugAssign, ast.Delete, ast.With, ast.Try)):
                        raise TranslateError("estimateZ0: %s inside the loop" % type(n).__name__)
                le = self.fork(env)
                # an outer array read inside the loop must not be stored into there: handled by `outer`
                le[kk] = V("S", "kk")
                self.loop = {"lo": lo, "hi": hi}
                self.block(st.body, le, in_loop={"outer": set(env), "depth": 0, "body": st})
                if "res" not in self.loop:
                    raise TranslateError("estimateZ0: the loop body does not end in `res[idx1] = np.nanmedian(src[idx2])`")
                self.count("loop")
            elif isinstance(st, ast.Return):
                if not top or st.value is None or not isinstance(st.value, ast.Name):
                    raise TranslateError("estimateZ0: return %s" % (ast.unparse(st.value) if st.value else ""))
                if self.loop is None:
                    raise TranslateError("estimateZ0: final return before the loop")
                self.returned = st.value.id
                self.count("return")
            else:
                raise TranslateError("estimateZ0: statement `%s` not in the accepted syntax" % ast.unparse(st).splitlines()[0])

    def median_store(self, res, idx1, value, env, in_loop):
        outer_env = in_loop["outer"]
        if not (env[res].kind in ("A", "O") and env[res].owned):
            raise TranslateError("estimateZ0: the loop stores into %s, a parameter or an aliased array" % res)
        # res must not be read anywhere else in the loop body
        uses = [n for n in ast.walk(in_loop["body"]) if isinstance(n, ast.Name) and n.id == res]
        if len(uses) != 1:
            raise TranslateError("estimateZ0: the result array %s is read inside the loop" % res)
        if not (_fn(value) in ("np.nanmedian",) and len(value.args) == 1 and not value.keywords and isinstance(value.args[0], ast.Subscript)
                and isinstance(value.args[0].value, ast.Name)):
            raise TranslateError("estimateZ0: loop store `%s[..] = %s` is not np.nanmedian(src[mask])" % (res, ast.unparse(value)))
        src = value.args[0].value.id
        if src not in env or env[src].kind not in ("A", "O"):
            raise TranslateError("estimateZ0: median source %s" % src)
        t1, a1 = self.boolean(idx1, env)
        t2, a2 = self.boolean(value.args[0].slice, env)
        if not (a1 and a2):
            raise TranslateError("estimateZ0: scalar mask in the loop store")
        b = lambda t: t if t.startswith("(if ") else "(if %s then true else false)" % t
        self.loop.update(res=res, init=self.lift(env[res]), idx1=b(t1), idx2=b(t2), src=self.lift(env[src]))

    def coq(self):
        early = self.early or ("false", "None")
        L = self.loop
        return ("Definition gen_z0_desc : z0desc := {|\n"
                "  zd_checked := [%s];\n  zd_early := fun h : R => %s;\n  zd_early_ret := fun o : obs => %s;\n"
                "  zd_init := fun o : obs => %s;\n  zd_lo := (%d)%%Z;\n  zd_hi := (%d)%%Z;\n"
                "  zd_idx1 := fun (o : obs) (kk h : R) => %s;\n  zd_idx2 := fun (o : obs) (kk h : R) => %s;\n"
                "  zd_src := fun (o : obs) (kk h : R) => %s\n|}.\n"
                % ("; ".join(self.checked), early[0], early[1], L["init"], L["lo"], L["hi"], L["idx1"], L["idx2"], L["src"]))


# ================================================================================================
# estimateFootprint


class _Sub(ast.NodeTransformer):
    """mxy[0] -> mxy__0, grid_domain[2] -> grid_domain__2 (names the environment defines)"""

    def visit_Subscript(self, node):
        self.generic_visit(node)
        if isinstance(node.value, ast.Name) and node.value.id in ("mxy", "grid_domain") and isinstance(node.slice, ast.Constant) \
                and type(node.slice.value) is int:
            return ast.copy_location(ast.Name(id="%s__%d" % (node.value.id, node.slice.value), ctx=ast.Load()), node)
        return node


class FpWalker(Walker):
    PARAMS = ["zm", "z0", "ws", "ustar", "mo_len", "sigma_v", "grid_domain", "grid_res", "mxy", "wd"]
    ATOMS = {"zm": "(p_zm (a_p a))", "z0": "(p_z0 (a_p a))", "ws": "(p_ws (a_p a))", "ustar": "(p_ustar (a_p a))",
             "mo_len": "(p_L (a_p a))", "sigma_v": "(p_sv (a_p a))", "grid_res": "(a_res a)",
             "mxy__0": "(a_mx a)", "mxy__1": "(a_my a)", "grid_domain__0": "(a_xmin a)", "grid_domain__1": "(a_xmax a)",
             "grid_domain__2": "(a_ymin a)", "grid_domain__3": "(a_ymax a)"}

    def __init__(self):
        super().__init__("estimateFootprint")
        self.cols = self.rows = None
        self.exit = None
        self.ret = None

    def run(self, fn):
        args = [a.arg for a in fn.args.args]
        if args != self.PARAMS or fn.args.vararg or fn.args.kwarg or fn.args.kwonlyargs or fn.args.posonlyargs:
            raise TranslateError("estimateFootprint: parameter list %r is not %r" % (args, self.PARAMS))
        if not (len(fn.args.defaults) == 1 and isinstance(fn.args.defaults[0], ast.Constant) and fn.args.defaults[0].value is None) or fn.decorator_list:
            raise TranslateError("estimateFootprint: defaults / decorators changed")
        fn = _Sub().visit(fn)
        env = {n: V("S", t) for n, t in self.ATOMS.items()}
        env["grid_domain"] = V("DOM")
        env["mxy"] = V("PARAM")
        env["wd"] = V("OPT")
        self.block(fn.body, env, top=True)
        if self.ret is None:
            raise TranslateError("estimateFootprint: no final return")
        if self.cols is None:
            raise TranslateError("estimateFootprint: no np.meshgrid of two np.arange found")

    # ---- pieces
    def arange(self, node, env):
        if isinstance(node, ast.Name) and node.id in env and env[node.id].kind == "VEC":
            return env[node.id]
        if _fn(node) == "np.arange" and len(node.args) == 3 and not node.keywords:
            vs = [self.real(a, env) for a in node.args]
            if any(v.kind != "S" for v in vs):
                raise TranslateError("estimateFootprint: np.arange of arrays")
            return V("VEC", extra=tuple(v.text for v in vs))
        return None

    def string(self, node, env):
        if isinstance(node, ast.Constant) and isinstance(node.value, str):
            return True
        if isinstance(node, ast.Name) and node.id in env and env[node.id].kind == "STR":
            return True
        if isinstance(node, ast.BinOp) and isinstance(node.op, ast.Add):
            return self.string(node.left, env) and self.string(node.right, env)
        if isinstance(node, ast.JoinedStr):
            return True
        if isinstance(node, ast.Call) and isinstance(node.func, ast.Attribute) and node.func.attr == "format" and self.string(node.func.value, env):
            for a in list(node.args) + [k.value for k in node.keywords]:
                if not (isinstance(a, ast.Name) and a.id in env):
                    raise TranslateError("estimateFootprint: message argument %s" % ast.unparse(a))
            return True
        return False

    def triple(self, node, env):
        if not (isinstance(node, ast.Tuple) and len(node.elts) == 3):
            raise TranslateError("estimateFootprint: return %s is not a triple" % ast.unparse(node))
        out = []
        for e in node.elts:
            v = self.value(e, env)
            if v.kind not in ("A", "S"):
                raise TranslateError("estimateFootprint: returned %s is a %s value" % (ast.unparse(e), v.kind))
            out.append(v.text)
        return "(%s, %s, %s)" % tuple(out)

    def assign(self, t, value, env, new):
        """one (target, value) pair; `new` collects bindings of a simultaneous assignment"""
        if isinstance(t, ast.Name):
            if t.id in self.PARAMS or t.id in self.ATOMS:
                raise TranslateError("estimateFootprint: parameter %s re-bound" % t.id)
            if isinstance(value, ast.AST):
                vec = self.arange(value, env) if _fn(value) == "np.arange" else None
                if vec is not None:
                    new[t.id] = vec
                elif self.string(value, env):
                    new[t.id] = V("STR")
                else:
                    new[t.id] = self.value(value, env)
            else:
                new[t.id] = value
            self.count("assignment")
        else:
            raise TranslateError("estimateFootprint: assignment target %s" % ast.unparse(t))

    def block(self, stmts, env, top=False):
        for st in stmts:
            if isinstance(st, ast.Expr) and isinstance(st.value, ast.Constant) and isinstance(st.value.value, str):
                continue
            if self.ret is not None:
                raise TranslateError("estimateFootprint: statement after the final return")
            if isinstance(st, ast.Assign):
                if len(st.targets) != 1:
                    raise TranslateError("estimateFootprint: chained assignment")
                t, v = st.targets[0], st.value
                if isinstance(t, ast.Tuple):
                    names = t.elts
                    if isinstance(v, ast.Tuple) and len(v.elts) == len(names):
                        new = {}
                        for a_, b_ in zip(names, v.elts):
                            self.assign(a_, b_, env, new)
                        env.update(new)
                    elif len(names) == 4 and ((_fn(v) in ("tuple", "list") and len(v.args) == 1 and isinstance(v.args[0], ast.Name) and v.args[0].id == "grid_domain")
                                              or (isinstance(v, ast.Name) and v.id == "grid_domain")) and env.get("grid_domain") is not None and env["grid_domain"].kind == "DOM":
                        new = {}
                        for k_, a_ in enumerate(names):
                            self.assign(a_, V("S", self.ATOMS["grid_domain__%d" % k_]), env, new)
                        env.update(new)
                        self.count("domain unpacking")
                    elif len(names) == 2 and _fn(v) == "np.meshgrid" and len(v.args) == 2 and \
                            {k_.arg: ast.unparse(k_.value) for k_ in v.keywords} in ({}, {"indexing": "'xy'"}):
                        if not top or self.cols is not None:
                            raise TranslateError("estimateFootprint: a second / conditional np.meshgrid")
                        ax, ay = self.arange(v.args[0], env), self.arange(v.args[1], env)
                        if ax is None or ay is None:
                            raise TranslateError("estimateFootprint: np.meshgrid arguments are not np.arange(start, stop, step)")
                        self.cols, self.rows = ax.extra, ay.extra
                        new = {}
                        self.assign(names[0], V("A", "(arange_nth %s %s j)" % (ax.extra[0], ax.extra[2]), owned=True), env, new)
                        self.assign(names[1], V("A", "(arange_nth %s %s i)" % (ay.extra[0], ay.extra[2]), owned=True), env, new)
                        env.update(new)
                        self.count("grid construction")
                    else:
                        raise TranslateError("estimateFootprint: tuple assignment `%s`" % ast.unparse(st))
                elif isinstance(t, ast.Subscript) and isinstance(t.value, ast.Name):
                    env[t.value.id] = self.masked_store(t.value.id, t.slice, v, env)
                    self.count("masked store")
                else:
                    new = {}
                    self.assign(t, v, env, new)
                    env.update(new)
            elif isinstance(st, ast.If):
                test = st.test
                if isinstance(test, ast.Compare) and len(test.ops) == 1 and isinstance(test.ops[0], (ast.Is, ast.IsNot)) \
                        and isinstance(test.left, ast.Name) and test.left.id == "wd" and isinstance(test.comparators[0], ast.Constant) \
                        and test.comparators[0].value is None and env["wd"].kind == "OPT":
                    e_none, e_some = self.fork(env), self.fork(env)
                    e_some["wd"] = V("S", "wdv")
                    b_none, b_some = (st.body, st.orelse) if isinstance(test.ops[0], ast.Is) else (st.orelse, st.body)
                    self.block(b_none, e_none)
                    self.block(b_some, e_some)
                    if self.ret is not None:
                        raise TranslateError("estimateFootprint: return inside a branch")
                    e_some["wd"] = env["wd"]
                    m = self.merge(None, e_none, e_some, fmt=lambda t1, t2: "(match a_wd a with None => %s | Some wdv => %s end)" % (t1, t2))
                    env.clear()
                    env.update(m)
                    self.count("branch on wd is None")
                    continue
                tt, arr = self.boolean(test, env)
                if arr:
                    raise TranslateError("estimateFootprint: `if` on an array")
                if top and not st.orelse and st.body and isinstance(st.body[-1], ast.Return) and st.body[-1].value is not None:
                    if self.exit is not None:
                        raise TranslateError("estimateFootprint: a second early exit")
                    le = self.fork(env)
                    warns = 0
                    for b in st.body[:-1]:
                        if isinstance(b, ast.Assign) and len(b.targets) == 1 and isinstance(b.targets[0], ast.Name) and self.string(b.value, le) \
                                and (b.targets[0].id not in le or le[b.targets[0].id].kind == "STR"):
                            le[b.targets[0].id] = V("STR")
                        elif isinstance(b, ast.Expr) and _fn(b.value) == "warnings.warn" and len(b.value.args) == 1 and self.string(b.value.args[0], le):
                            warns += 1
                        else:
                            raise TranslateError("estimateFootprint: statement `%s` on the early-exit path" % ast.unparse(b).splitlines()[0])
                    self.exit = ("(if %s then true else false)" % tt, "true" if warns == 1 else "false", self.triple(st.body[-1].value, le))
                    self.count("early exit")
                    continue
                e1, e2 = self.fork(env), self.fork(env)
                self.block(st.body, e1)
                self.block(st.orelse, e2)
                if self.ret is not None:
                    raise TranslateError("estimateFootprint: return inside a branch")
                m = self.merge(tt, e1, e2)
                env.clear()
                env.update(m)
                self.count("scalar branch")
            elif isinstance(st, ast.Return):
                if not top or st.value is None:
                    raise TranslateError("estimateFootprint: return")
                self.ret = self.triple(st.value, env)
                self.count("return")
            else:
                raise TranslateError("estimateFootprint: statement `%s` not in the accepted syntax" % ast.unparse(st).splitlines()[0])

    def coq(self):
        ex = self.exit or ("false", "false", "(0, 0, 0)")
        return ("Definition gen_fp_desc : fpdesc := {|\n"
                "  fd_cols := fun a : fpargs => (%s, %s, %s);\n  fd_rows := fun a : fpargs => (%s, %s, %s);\n"
                "  fd_exit := fun a : fpargs => %s;\n  fd_exit_warns := %s;\n"
                "  fd_exit_ret := fun (a : fpargs) (i j : nat) => %s;\n"
                "  fd_ret := fun (Gamma : R -> R) (a : fpargs) (i j : nat) => %s\n|}.\n"
                % (self.cols + self.rows + (ex[0], ex[1], ex[2], self.ret)))


# ================================================================================================


def translate(path=None):
    """-> (text of GenKMFun.v, accounting dict)"""
    path = path or KMFILE()
    src = open(path).read()
    tree = ast.parse(src)
    py2coq._annotate_float_text(tree, src)
    z = Z0Walker()
    z.run(py2coq.find_function(tree, "estimateZ0"))
    head = ("(* generated by harness/py2coq_km.py from %s *)\n"
            "From Coq Require Import Reals List ZArith Bool.\nFrom BL Require Import Model.KM Model.KMDesc.\n"
            "From Gen Require Import GenKMHelp.\nImport ListNotations.\nOpen Scope R_scope.\n\n" % os.path.basename(path))
    f = FpWalker()
    f.run(py2coq.find_function(tree, "estimateFootprint"))
    return head + z.coq() + "\n" + f.coq(), {"estimateZ0": z.notes, "estimateFootprint": f.notes}


TRUSTED = [
    "harness/py2coq_km.py's symbolic reading of estimateZ0 / estimateFootprint: numpy arithmetic, comparisons, np.where, np.logical_and and masked stores `a[m] = e[m]` act elementwise (per observation / per cell); `x.copy()` and arithmetic results are fresh arrays, a plain `a = b` is an alias (a later store into either fails closed); `np.zeros_like(x) + np.nan` / `np.full_like(x, np.nan)` is the all-nan array; `range(a, b)` with literal bounds; scalar if/elif/else merged by conditional expressions; Python name binding in source order. The interpreters run_z0 / run_fp of Model/KMDesc.v read `res[idx1] = np.nanmedian(src[idx2])` as: the median of the selected entries of src, in their order, stored at every index where idx1 holds",
    "np.arange(start, stop, step)[j] = start + j*step and np.meshgrid(ax, ay) = (ax[j], ay[i]) at [i, j] (default indexing) as READINGS of the translator; the number of rows / columns is tied by the exact grid correspondence (Model/KMExec.grid_ok), not by the bridge",
]
ASSUMPTIONS = [
    "whole-function tie of estimateZ0: inputs are finite real arrays of equal length (the code raises RuntimeError otherwise - the length check is part of the description); a nan wind direction fails every comparison in the code and keeps the initial nan, the model has no nan direction",
]


def run(ctx):
    """translate the current source, compile GenKMFun.v, re-prove Bridge/KMFunBridge.v, check closedness.
    Returns ({function: placeholder for the skeleton}, {function: its bridge file fully discharged})"""
    import re
    try:
        text, acc = translate()
    except TranslateError as e:
        ctx.obligation("gen:GenKMFun.v", False, "whole-function translator failed closed: %s" % e)
        return {}, {}
    except Exception as e:  # noqa: BLE001 - fail closed on anything unforeseen
        ctx.obligation("gen:GenKMFun.v", False, "whole-function translator failed closed: %s: %s" % (type(e).__name__, e))
        return {}, {}
    ctx.cov["km_whole_function"] = {"statements_accounted_for": acc}
    for t in TRUSTED:
        if t not in ctx.trusted:
            ctx.trusted.append(t)
    for t in ASSUMPTIONS:
        if t not in ctx.assumptions:
            ctx.assumptions.append(t)
    whole = {f: "GenKMFun.%s" % d for f, d in WHOLE.items() if f in acc}
    p = ctx.write("GenKMFun.v", text)
    rc, out, err, dt = ctx.coqc(p)
    if rc != 0:
        ctx.obligation("gen:GenKMFun.v", False, "generated file does not compile: " + (out + err)[-1500:])
        return {}, {}
    oks = {}
    for f, b in BRIDGES.items():
        ok = core.run_bridge(ctx, {}, [b + ".v"])
        if ok:
            src = core.strip_coq_comments(open(os.path.join(core.COQ, "Bridge", b + ".v")).read())
            names = re.findall(r"^\s*(?:Lemma|Theorem)\s+([\w']+)", src, re.M)
            ax = "From Gen Require Import %s.\n" % b + "".join(
                'Goal True. idtac "THEOREM %s". Abort. Print Assumptions %s.\n' % (n, n) for n in names)
            rc, o, e, dt = ctx.coqc(ctx.write(b + "Ax.v", ax))
            got = core.parse_assumptions(o + "\n" + e)
            bad = ["%s: %s" % (n, sorted(got[n] - core.AX_REALS) if isinstance(got.get(n), set) else got.get(n, "missing"))
                   for n in names if not (isinstance(got.get(n), set) and got[n] <= core.AX_REALS)]
            ctx.obligation("closed:" + b, rc == 0 and not bad,
                           "" if rc == 0 and not bad else "assumptions beyond the axioms of the real numbers: %s %s" % ("; ".join(bad), (o + e)[-600:] if rc else ""))
            ok = rc == 0 and not bad
        oks[f] = ok
    return whole, oks


BRIDGES = {"estimateZ0": "KMFunBridge", "estimateFootprint": "KMFpFunBridge"}
WHOLE = {"estimateZ0": "gen_z0_desc", "estimateFootprint": "gen_fp_desc"}


if __name__ == "__main__":
    import sys
    t, acc = translate(sys.argv[1] if len(sys.argv) > 1 else None)
    print(t)
    print(acc, file=sys.stderr)
