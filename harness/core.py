"""Driver library for the BLDFM property checks (see DESIGN.md, section 5).

A check for property Cxx is `bin/check Cxx quick|thorough`.  It
  1. makes sure the static Coq theories are built (full .vo build, flock-serialised),
  2. re-compiles Properties/Cxx.v and compares every `Print Assumptions` block with the
     allow-list (proof obligations: the property theorems),
  3. re-generates Gen/*.v from /repo's *current* working tree with the fail-closed slice
     translator and re-proves the bridge lemmas (proof obligations: gen = model, all args),
  4. runs the correspondence (implementation vs. Coq model on the same generated inputs),
  5. on any failure (or always, in the thorough tier, for oracles with exact criteria) runs the
     property's own Python oracle to find a concrete failing input on the real code,
  6. matches candidate violations against known_findings.json, prints VIOLATION / KNOWN-FINDING,
  7. writes evidence/Cxx.json.
"""
import fcntl
import hashlib
import importlib
import json
import os
import random
import re
import shutil
import subprocess
import sys
import tempfile
import time

VERIF = os.path.dirname(os.path.dirname(os.path.abspath(__file__)))
COQ = os.path.join(VERIF, "coq")
REPO = os.environ.get("BLDFM_REPO", "/repo")
SRC = os.path.join(REPO, "src")
PY = "/venv/bin/python"

FORBIDDEN = re.compile(
    r"\b(Admitted|admit|Axiom|Axioms|Parameter|Parameters|Conjecture|Conjectures|Admit Obligations|"
    r"Unset Guard Checking|Unset Positivity Checking|Unset Universe Checking|bypass_check|"
    r"type-in-type|impredicative-set)\b"
)

# Axioms that the Coq standard library itself declares and that theorems over R / interval use.
# Each is named in DESIGN.md section 8.  A theorem's Print Assumptions output must be a subset of
# the class its property file declares.
AX_NONE = set()
AX_REALS = {
    "ClassicalDedekindReals.sig_forall_dec",
    "ClassicalDedekindReals.sig_not_dec",
    "FunctionalExtensionality.functional_extensionality_dep",
    "Classical_Prop.classic",
}


def log(*a):
    print(*a, flush=True)


def log_line(text):
    """a protocol line (VIOLATION / KNOWN-FINDING) must start at column 0 even if the implementation under test (or a
    library) wrote to the terminal without a final newline: flush both streams and start a fresh line first"""
    try:
        sys.stderr.flush()
    except Exception:
        pass
    sys.stdout.write("\n" + text + "\n")
    sys.stdout.flush()


class CheckFailure(Exception):
    pass


def run(cmd, timeout=600, cwd=None, env=None, input=None):
    t0 = time.time()
    try:
        p = subprocess.run(
            cmd, cwd=cwd, env=env, input=input, capture_output=True, text=True, timeout=timeout
        )
        return p.returncode, p.stdout, p.stderr, time.time() - t0
    except subprocess.TimeoutExpired as e:
        out = e.stdout.decode() if isinstance(e.stdout, bytes) else (e.stdout or "")
        err = e.stderr.decode() if isinstance(e.stderr, bytes) else (e.stderr or "")
        return 124, out, err + "\nTIMEOUT", time.time() - t0


def pyenv(extra=None):
    """Environment for running the implementation: repo sources first, fixed hash seed."""
    e = dict(os.environ)
    e["PYTHONPATH"] = SRC + os.pathsep + os.path.join(VERIF, "harness")
    e["PYTHONHASHSEED"] = "0"
    e["NUMBA_CACHE_DIR"] = os.path.join(VERIF, "build", "numba_cache")
    e["MPLBACKEND"] = "Agg"
    e["BLDFM_VERIF"] = "1"
    e.setdefault("OMP_NUM_THREADS", "1")
    if extra:
        e.update(extra)
    return e


# ---------------------------------------------------------------------------------------------
# static build


def static_build(jobs=16):
    """Full .vo build of coq/ (never -vos).  Serialised with a lock; a no-op when up to date."""
    os.makedirs(os.path.join(VERIF, "build"), exist_ok=True)
    lock = open(os.path.join(VERIF, "build", ".lock"), "w")
    fcntl.flock(lock, fcntl.LOCK_EX)
    try:
        files = []
        for d in ("Base", "Model", "Proofs", "Properties"):
            dd = os.path.join(COQ, d)
            if os.path.isdir(dd):
                files += sorted(
                    os.path.join(d, f) for f in os.listdir(dd) if f.endswith(".v")
                )
        with open(os.path.join(COQ, "_CoqProject"), "w") as f:
            f.write("-Q . BL\n-arg -w -arg -notation-overridden,-deprecated-hint-without-locality,-deprecated-instance-without-locality\n")
            f.write("\n".join(files) + "\n")
        rc, out, err, _ = run(
            ["coq_makefile", "-f", "_CoqProject", "-o", "Makefile"], cwd=COQ, timeout=120
        )
        if rc != 0:
            raise CheckFailure("coq_makefile failed: " + err)
        rc, out, err, dt = run(
            ["timeout", "3000", "make", "-j%d" % jobs], cwd=COQ, timeout=3100
        )
        if rc != 0:
            raise CheckFailure("static Coq build failed:\n" + (out + err)[-4000:])
        return dt
    finally:
        fcntl.flock(lock, fcntl.LOCK_UN)
        lock.close()


def forbidden_gate():
    """No Admitted/admit/Axiom/... anywhere in the development (comments are stripped first)."""
    bad = []
    for root, _, fs in os.walk(COQ):
        for f in fs:
            if not f.endswith(".v"):
                continue
            p = os.path.join(root, f)
            txt = open(p).read()
            txt = strip_coq_comments(txt)
            for m in FORBIDDEN.finditer(txt):
                bad.append("%s: %s" % (os.path.relpath(p, COQ), m.group(0)))
    return bad


def strip_coq_comments(txt):
    out = []
    depth = 0
    i = 0
    n = len(txt)
    while i < n:
        if txt.startswith("(*", i):
            depth += 1
            i += 2
        elif txt.startswith("*)", i) and depth > 0:
            depth -= 1
            i += 2
        else:
            if depth == 0:
                out.append(txt[i])
            i += 1
    return "".join(out)


# ---------------------------------------------------------------------------------------------
# running coqc on generated files


def ast_hashes(src_root=None):
    """{relative path: hash of the docstring- and comment-free AST} for every module of the package"""
    import ast
    src_root = src_root or os.path.join(SRC, "bldfm")
    out = {}
    for root, _, fs in os.walk(src_root):
        for f in sorted(fs):
            if not f.endswith(".py"):
                continue
            p = os.path.join(root, f)
            try:
                tree = ast.parse(open(p).read())
            except SyntaxError:
                out[os.path.relpath(p, src_root)] = "syntax-error"
                continue
            for node in ast.walk(tree):
                body = getattr(node, "body", None)
                if isinstance(body, list) and body and isinstance(body[0], ast.Expr) and isinstance(getattr(body[0], "value", None), ast.Constant) \
                        and isinstance(body[0].value.value, str):
                    body.pop(0)
            out[os.path.relpath(p, src_root)] = hashlib.sha1(ast.dump(tree).encode()).hexdigest()
    return out


BASELINE_AST = os.path.join(VERIF, "harness", "baseline_ast.json")
# thorough generators that finish within a few minutes: used for the quick tier when an anchored source file differs
# from the tree the machinery was validated on (the search is deepened where the code moved; nothing changes on the
# unchanged tree).  Not an obligation: a changed file alone is never reported.
ESCALATE = {"C01", "C02", "C03", "C04", "C05", "C06", "C07", "C10", "C11", "C17"}


def changed_anchor_files(prop):
    """anchored source files of the property whose AST differs from the verified baseline"""
    try:
        base = json.load(open(BASELINE_AST))
    except Exception:
        return []
    cur = ast_hashes()
    changed = {k for k in set(base) | set(cur) if base.get(k) != cur.get(k)}
    anchors = set()
    try:
        for line in open(os.path.join(VERIF, "properties.jsonl")):
            pr = json.loads(line)
            if pr["id"] == prop:
                for f in pr.get("anchors", {}).get("files", []):
                    if f.startswith("src/bldfm/"):
                        anchors.add(f[len("src/bldfm/"):])
    except Exception:
        pass
    return sorted(changed & anchors) if anchors else sorted(changed)


class Ctx:
    def __init__(self, prop, tier, seed):
        self.prop = prop
        self.tier = tier
        self.seed = seed
        self.escalated = []
        self.rng = random.Random(seed * 1000003 + int(prop[1:]))
        self.build = os.path.join(VERIF, "build", prop)
        if os.path.isdir(self.build):
            shutil.rmtree(self.build, ignore_errors=True)
        os.makedirs(self.build, exist_ok=True)
        self.t0 = time.time()
        self.obligations = []  # (name, ok, detail)
        self.failures = []  # dicts: kind, name, detail, hint
        self.cov = {}
        self.assumptions = []
        self.trusted = []
        self.violations = []
        self.known = []

    @property
    def thorough(self):
        return self.tier == "thorough" or bool(self.escalated)

    def coqc(self, path, timeout=300, extra_q=()):
        """Compile one file living in self.build (logical root Gen) against the static theories."""
        cmd = ["coqc", "-w", "-notation-overridden,-deprecated-hint-without-locality", "-Q", COQ, "BL", "-Q", self.build, "Gen"]
        for d, l in extra_q:
            cmd += ["-Q", d, l]
        cmd.append(path)
        return run(cmd, timeout=timeout, cwd=self.build)

    def write(self, name, text):
        p = os.path.join(self.build, name)
        with open(p, "w") as f:
            f.write(text)
        return p

    def obligation(self, name, ok, detail=""):
        self.obligations.append((name, bool(ok), detail))
        if not ok:
            self.failures.append({"kind": "proof", "name": name, "detail": detail[-1500:]})

    def fail(self, kind, name, detail="", hint=None):
        self.failures.append({"kind": kind, "name": name, "detail": str(detail)[-1500:], "hint": hint})


def parse_assumptions(out):
    """Parse coqc stdout containing blocks printed by `Print Assumptions thm.`.
    We require each block to be preceded by an `idtac`-free marker line printed through
    `Check thm.`-less convention: the property files print `(* THEOREM name *)` via
      Goal True. idtac "THEOREM name". Abort.
    Returns {name: set(axioms) or None (closed)}."""
    res = {}
    cur = None
    mode = None
    for line in out.splitlines():
        m = re.match(r"^THEOREM (\S+)", line)
        if m:
            cur = m.group(1)
            res[cur] = "missing"
            mode = None
            continue
        if cur is None:
            continue
        if line.startswith("Closed under the global context"):
            res[cur] = set()
            mode = None
        elif line.startswith("Axioms:"):
            res[cur] = set()
            mode = "ax"
        elif mode == "ax":
            # an axiom entry starts at column 0 with its name; its `: type` may wrap onto the next line
            m = re.match(r"^([A-Za-z_][\w.']*)\s*(:|$)", line)
            if m and not line.startswith(" "):
                res[cur].add(m.group(1))
    return res


PRIMITIVE_PREFIXES = (
    "Uint63.", "PrimInt63.", "PrimFloat.", "FloatAxioms.", "Sint63.", "PArray.", "Uint63Axioms.", "FloatOps.",
    "Coq.Numbers.Cyclic.Int63.", "Coq.Floats.",
)


def check_properties_file(ctx, relpath, expected, allowed, coqchk=True):
    """Re-compile Properties/Cxx.v, capture Print Assumptions, compare with the allow-list.
    expected: list of theorem names that must be reported."""
    src = os.path.join(COQ, relpath)
    if not os.path.exists(src):
        for n in expected:
            ctx.obligation(n, False, "missing " + relpath)
        return
    txt = strip_coq_comments(open(src).read())
    # the file must contain nothing but Require/Theorem/exact/Print Assumptions/marker goals
    rc, out, err, dt = run(
        ["coqc", "-w", "-notation-overridden", "-Q", COQ, "BL", src], timeout=900, cwd=COQ
    )
    if rc != 0:
        for n in expected:
            ctx.obligation(n, False, "coqc %s failed: %s" % (relpath, (out + err)[-1200:]))
        return
    got = parse_assumptions(out)
    for n in expected:
        if n not in got or got[n] == "missing":
            ctx.obligation(n, False, "no Print Assumptions block for " + n)
            continue
        allow_n = allowed.get(n, AX_NONE) if isinstance(allowed, dict) else allowed
        extra = {
            a for a in got[n]
            if a not in allow_n and not a.startswith(PRIMITIVE_PREFIXES)
        }
        ctx.obligation(n, not extra, "axioms outside the allow-list: %s" % sorted(extra) if extra else "")
        if n not in txt:
            ctx.obligation(n + ":stated", False, "theorem not stated in " + relpath)
    ctx.cov.setdefault("axioms", {})
    for n in expected:
        if isinstance(got.get(n), set):
            ctx.cov["axioms"][n] = sorted(got[n]) if got[n] else []
    if coqchk and ctx.thorough and os.environ.get("VERIF_NO_COQCHK") != "1":
        run_coqchk(ctx, relpath, allowed)


def run_coqchk(ctx, relpath, allowed):
    """thorough tier: re-check the compiled property file and everything it depends on with the
    independent checker coqchk and compare the axioms it reports with the allow-list"""
    mod = "BL." + relpath[:-2].replace("/", ".")
    rc, out, err, dt = run(["coqchk", "-silent", "-o", "-Q", COQ, "BL", mod], timeout=2400, cwd=COQ)
    txt = out + err
    if rc == 124:
        # resource limit of the ADDITIONAL independent re-check (files importing Interval/Coquelicot take tens of minutes):
        # not a statement about the property - recorded, neither discharged nor failed.  The kernel check by coqc is complete.
        ctx.cov["coqchk"] = {"module": mod, "seconds": round(dt, 1), "completed": False,
                             "note": "coqchk did not finish within its time limit on this machine; no obligation is recorded for it"}
        return
    ok = rc == 0 and "relying on type-in-type: <none>" in txt and "unsafe (co)fixpoints: <none>" in txt and "positivity is assumed: <none>" in txt
    axioms = []
    m = re.search(r"\* Axioms:(.*?)\n\s*\n\* Constants", txt, re.S)
    if m:
        for line in m.group(1).splitlines():
            line = line.strip()
            if line and line != "<none>":
                axioms.append(line)
    union = set()
    if isinstance(allowed, dict):
        for v in allowed.values():
            union |= set(v)
    else:
        union = set(allowed)
    short = {a.split(".")[-1] for a in union}
    extra = [a for a in axioms if a.split(".")[-1] not in short and not a.startswith(PRIMITIVE_PREFIXES)
             and not any(p.rstrip(".") in a for p in PRIMITIVE_PREFIXES)]
    ctx.obligation("coqchk:" + mod, ok and not extra, ("axioms outside the allow-list: %s" % extra) if extra else txt[-800:] if not ok else "")
    ctx.cov["coqchk"] = {"module": mod, "seconds": round(dt, 1), "axioms": axioms}


def run_bridge(ctx, gen_files, bridge_files):
    """gen_files: {name.v: text} generated from /repo now; bridge_files: paths under coq/Bridge.
    Each bridge lemma is a proof obligation 'gen_x = model_x for all arguments'."""
    for name, text in gen_files.items():
        p = ctx.write(name, text)
        rc, out, err, dt = ctx.coqc(p)
        if rc != 0:
            ctx.obligation("gen:" + name, False, "generated file does not compile: " + (out + err)[-1500:])
            return False
    ok_all = True
    for b in bridge_files:
        src = os.path.join(COQ, "Bridge", b)
        dst = ctx.write(b, open(src).read())
        names = re.findall(r"^\s*(?:Lemma|Theorem)\s+([\w']+)", strip_coq_comments(open(src).read()), re.M)
        rc, out, err, dt = ctx.coqc(dst, timeout=600)
        if rc == 0:
            for n in names:
                ctx.obligation("bridge:" + n, True)
        else:
            ok_all = False
            # find which lemma broke: the error location gives a line number
            m = re.search(r'line (\d+)', err)
            broken = None
            if m:
                ln = int(m.group(1))
                lines = open(src).read().splitlines()
                for i in range(min(ln, len(lines)) - 1, -1, -1):
                    mm = re.match(r"^\s*(?:Lemma|Theorem)\s+([\w']+)", lines[i])
                    if mm:
                        broken = mm.group(1)
                        break
            for n in names:
                if broken is None or n == broken:
                    ctx.obligation("bridge:" + n, False, (out + err)[-1500:])
                else:
                    # lemmas before the broken one compiled; those after are unknown -> not discharged
                    idx_b = names.index(broken)
                    ctx.obligation("bridge:" + n, names.index(n) < idx_b, "not reached (earlier bridge lemma failed)")
    return ok_all


# ---------------------------------------------------------------------------------------------
# evaluating the model inside Coq


def coq_eval_cases(ctx, shard_name, header, cases, timeout=600):
    """cases: list of (case_id, coq_term_of_type_bool_or_printable).  Each is evaluated with
    vm_compute and printed on its own line as `CASE <id> <value>`.  Returns {id: text}."""
    lines = [header, "Set Printing Width 1000000.", "Set Printing Depth 1000000."]
    for cid, term in cases:
        lines.append(
            'Goal True. let r := eval vm_compute in (%s) in idtac "CASE %s" r. Abort.' % (term, cid)
        )
    p = ctx.write(shard_name, "\n".join(lines) + "\n")
    rc, out, err, dt = ctx.coqc(p, timeout=timeout)
    res = {}
    for line in (out + "\n" + err).splitlines():
        m = re.match(r"^CASE (\S+) (.*)$", line)
        if m:
            res[m.group(1)] = m.group(2).strip()
    if rc != 0:
        res["__error__"] = (out + err)[-2000:]
    return res


def coq_eval_sharded(ctx, prefix, header, cases, shard=40, timeout=600, jobs=8):
    """Shards a long case list over several coqc processes run in parallel."""
    from concurrent.futures import ThreadPoolExecutor

    shards = [cases[i : i + shard] for i in range(0, len(cases), shard)]
    res = {}
    errs = []

    def one(k):
        return coq_eval_cases(ctx, "%s_%03d.v" % (prefix, k), header, shards[k], timeout=timeout)

    with ThreadPoolExecutor(max_workers=jobs) as ex:
        for r in ex.map(one, range(len(shards))):
            if "__error__" in r:
                errs.append(r.pop("__error__"))
            res.update(r)
    if errs:
        res["__error__"] = "\n".join(errs)[-3000:]
    return res


# ---------------------------------------------------------------------------------------------
# literals


def zlit(n):
    return "(%d)%%Z" % n


def qlit(fr):
    """exact rational as Coq Q"""
    from fractions import Fraction

    fr = Fraction(fr)
    return "(%d # %d)%%Q" % (fr.numerator, fr.denominator) if fr.numerator >= 0 else "(-(%d) # %d)%%Q" % (-fr.numerator, fr.denominator)


def flit(x):
    """IEEE double as a Coq PrimFloat literal (hex, exact)."""
    import math

    x = float(x)
    if math.isnan(x):
        return "nan"
    if math.isinf(x):
        return "infinity" if x > 0 else "neg_infinity"
    h = x.hex()
    if h.startswith("-"):
        return "(-%s)%%float" % h[1:]
    return "(%s)%%float" % h


def coq_list(items):
    return "[" + "; ".join(items) + "]"


# ---------------------------------------------------------------------------------------------
# known findings, violations, evidence


def load_known():
    p = os.path.join(VERIF, "known_findings.json")
    if not os.path.exists(p):
        return []
    return json.load(open(p)).get("findings", [])


def report(ctx, candidates):
    """candidates: list of dicts {signature, what, replay: {...}}.  Matches against open known
    findings; prints KNOWN-FINDING or VIOLATION lines.  Returns number of new violations."""
    known = [k for k in load_known() if k["property"] == ctx.prop]
    new = 0
    seen_known = set()
    seen_sig = set()
    for c in candidates:
        sig = c.get("signature", "")
        match = None
        for k in known:
            if k.get("status", "open") == "open" and k["signature"] == sig:
                match = k
        if match is not None:
            if sig not in seen_known:
                log_line("KNOWN-FINDING: property=%s %s" % (ctx.prop, match["what"]))
                seen_known.add(sig)
                ctx.known.append(sig)
            continue
        if sig in seen_sig:
            continue
        seen_sig.add(sig)
        body = dict(c.get("replay", {}))
        body.update({"property": ctx.prop, "signature": sig, "what": c.get("what", ""), "seed": ctx.seed, "tier": ctx.tier})
        h = hashlib.sha1(json.dumps(body, sort_keys=True, default=str).encode()).hexdigest()[:10]
        path = os.path.join(VERIF, "replays", "%s-%s.json" % (ctx.prop, h))
        with open(path, "w") as f:
            json.dump(body, f, indent=1, default=str)
        tail = "" if c.get("failing_input", True) else " no-failing-input-found"
        log_line("VIOLATION property=%s replay=%s%s" % (ctx.prop, path, tail))
        ctx.violations.append(path)
        new += 1
    return new


def write_evidence(ctx, level="proof"):
    nob = len(ctx.obligations)
    ndis = sum(1 for o in ctx.obligations if o[1])
    cov = dict(ctx.cov)
    cov.setdefault("evaluations", 0)
    cov.setdefault("distinct_nontrivial", 0)
    cov.setdefault("rule", "")
    cov.setdefault("samples", [])
    cov["obligations"] = nob
    cov["discharged"] = ndis
    cov["obligation_names"] = [o[0] for o in ctx.obligations]
    cov["undischarged"] = [o[0] for o in ctx.obligations if not o[1]]
    cov["checker_cmd"] = "coqc 8.16.1 (full .vo build via coq_makefile/make; Properties/%s.v, Gen/Bridge re-compiled this run); bin/check %s %s" % (ctx.prop, ctx.prop, ctx.tier)
    cov["trusted_base"] = ctx.trusted
    cov["known_findings_reported"] = ctx.known
    if ctx.escalated:
        cov["escalated_because_source_differs_from_baseline"] = ctx.escalated
    ev = {
        "property_id": ctx.prop,
        "tier": ctx.tier,
        "seed": ctx.seed,
        "level": level,
        "coverage": cov,
        "assumptions": ctx.assumptions,
        "wall_s": round(time.time() - ctx.t0, 2),
        "violations": len(ctx.violations),
    }
    # evidence committed under /verif/evidence always comes from /repo itself; runs against a scratch
    # tree (BLDFM_REPO set) write to build/evidence_alt instead
    evdir = os.path.join(VERIF, "evidence") if os.path.realpath(REPO) == "/repo" else os.path.join(VERIF, "build", "evidence_alt")
    os.makedirs(evdir, exist_ok=True)
    with open(os.path.join(evdir, ctx.prop + ".json"), "w") as f:
        json.dump(ev, f, indent=1, default=str)


TRUSTED_COMMON = [
    "Coq 8.16.1 kernel and vm_compute (no native_compute)",
    "harness/py2coq.py slice translator (fail-closed AST walk, SSA substitution, literal conversion)",
    "harness correspondence generators and in-Coq comparison functions",
    "no extraction is used (no Extract directives)",
]


def main(argv):
    prop = argv[1]
    tier = os.environ.get("VERIF_TIER") or (argv[2] if len(argv) > 2 else "quick")
    seed = int(os.environ.get("VERIF_SEED", "0") or 0)
    sys.path.insert(0, os.path.join(VERIF, "harness"))
    ctx = Ctx(prop, tier, seed)
    if tier == "quick" and prop in ESCALATE and os.environ.get("VERIF_NO_ESCALATE") != "1":
        ch = changed_anchor_files(prop)
        if ch:
            ctx.escalated = ch
            os.environ["VERIF_NO_COQCHK"] = "1"   # the independent re-check of the theorems does not depend on /repo
            log("%s: anchored source differs from the verified baseline in %s: searching with the thorough generators" % (prop, ", ".join(ch)))
    os.chdir(ctx.build)  # BLDFM drops fftw_wisdom.pkl / .bldfm_cache into cwd
    mod = importlib.import_module("props." + prop.lower())
    ctx.trusted = list(TRUSTED_COMMON) + list(getattr(mod, "TRUSTED", []))
    ctx.assumptions = list(getattr(mod, "ASSUMPTIONS", []))
    try:
        static_build()
        bad = forbidden_gate()
        ctx.obligation("gate:no-Admitted-Axiom-etc", not bad, "; ".join(bad))
        mod.check(ctx)
    except CheckFailure as e:
        ctx.fail("infrastructure", "check", str(e))
        ctx.obligation("infrastructure", False, str(e))
    cands = []
    if hasattr(mod, "probe_known"):
        # witnesses of the open known findings, replayed on the implementation in every run: a finding that is
        # still there prints its KNOWN-FINDING line, anything else these inputs show is reported as a violation
        try:
            cands.extend(mod.probe_known(ctx))
        except Exception:
            import traceback

            ctx.fail("oracle", "known-finding-probe-crashed", traceback.format_exc())
    if ctx.failures or (ctx.thorough and getattr(mod, "SWEEP_IN_THOROUGH", True)):
        hints = [f.get("hint") for f in ctx.failures if f.get("hint")]
        try:
            found = mod.oracle(ctx, hints) if hasattr(mod, "oracle") else []
            if any(h and ("stress" in h or (isinstance(h.get("case"), dict) and "q0" in h["case"])) for h in hints) or (ctx.failures and hasattr(mod, "sc")):
                # call sequences (one-argument siblings, cached repeats) on which the solver's result stopped being a
                # function of its arguments: replayed on the implementation against a fresh process / an uncached call;
                # and, for every solver request on which model and implementation disagree, the consistency probes that
                # every solver-family property presupposes (slot = single-level request, presentation, purity)
                import solvercorr
                found = list(found) + solvercorr.stress_oracle(ctx, hints)
        except Exception as e:  # an oracle crash must not hide a failure
            import traceback

            found = []
            ctx.fail("oracle", "oracle-crashed", traceback.format_exc())
        cands.extend(found)
    known_sigs = {k["signature"] for k in load_known() if k["property"] == prop and k.get("status", "open") == "open"}
    fresh = [c for c in cands if c.get("signature") not in known_sigs]
    if ctx.failures and not fresh:
        # nothing concrete (and new) found: still a violation, naming what no longer checks
        names = [f["name"] for f in ctx.failures]
        cands.append(
            {
                "signature": "unproved:" + ",".join(sorted(set(names)))[:200],
                "what": "proof obligation or correspondence no longer checks: " + ", ".join(names[:6]),
                "failing_input": False,
                "replay": {"broken": ctx.failures},
            }
        )
    elif ctx.failures:
        for c in fresh:
            c.setdefault("replay", {})["broken"] = [
                {"kind": f["kind"], "name": f["name"]} for f in ctx.failures
            ]
    new = report(ctx, cands)
    write_evidence(ctx)
    for f in ctx.failures[:8]:
        log("  broken: [%s] %s :: %s" % (f["kind"], f["name"], (f.get("detail") or "").strip().splitlines()[-1:] ))
    log("%s %s: obligations %d/%d, evaluations %s, violations %d, %.1fs" % (
        prop, tier, sum(1 for o in ctx.obligations if o[1]), len(ctx.obligations),
        ctx.cov.get("evaluations"), new, time.time() - ctx.t0))
    return 1 if new else 0
