"""Fail-closed translator for the tie (B) of C13:  interface.run_bldfm_single  and the parser part of
config_parser  ->  closed Gallina terms of the description types of coq/Model/InterfaceDesc.v.

The translator only TRANSLITERATES syntax (Python `ast`); it interprets nothing.  What a description means
is defined in Coq (`InterfaceDesc.run_desc`, `place_desc`, `defaults_consistent`); coq/Bridge/InterfaceBridge.v
and coq/Bridge/ConfigParserBridge.v prove, against the files generated from the CURRENT source, that the
meaning equals Model/Interface.v (`plumb_c`, `place`, the parser tables) for ALL arguments.

Emitted, independently of each other (a part outside the fragment does not take the other one down):
 Gen/GenInterface.v
  gen_sigs       parameter names of the four pipeline functions, read off THEIR definitions
                 (utils.compute_wind_fields, utils.ideal_source, pbl_model.vertical_profiles,
                 solver.steady_state_transport_solver) - positional arguments are bound through these in Coq
  gen_plumb      run_bldfm_single: parameters with defaults, every statement of the body, the returned dict
 Gen/GenConfigParser.v
  gen_classes    the seven dataclasses: fields with their defaults (only the modelled methods may be defined)
  gen_tower .. gen_parallel   the _parse_* functions as rows (field, key, d[k] | d.get(k) | d.get(k, lit),
                 conversion float()/tuple()) in evaluation order, with the `if d is None: return Cls()` flag
  gen_lits       the d.get literals
  gen_top        parse_config_dict        gen_load   load_config
  gen_post_init  BLDFMConfig.__post_init__        gen_local_xy   TowerConfig.compute_local_xy

Accepted fragment of run_bldfm_single (anything else raises TranslateError):
  statements   x = e | x, y = e | targets = <pipeline function>(e.., k=e..) | if c: .. [elif/else ..] |
               logger.<m>(pure expressions) (dropped) | docstring (dropped) | final `return {"k": e, ..}`
  expressions  x | e.f | e["k"] | e.get("k") | e.get_step(e) | (e, e) | list(range(e)) | e + e |
               small non-negative int | None | True | False
  conditions   e is None | e is not None | e (a name or attribute: truthiness) | c and c
No `or`, no conditional expression, no call of anything but the four pipeline functions, no starred or
double-starred argument, no loop, no try, no nested definition, no import, no second return.
Module level: the four functions must be bound exactly once, by `from .<module> import ..` of the module the
model names, and must be plain undecorated functions defined once there; run_bldfm_single itself undecorated;
no module-level control flow, no `global` of a name the body uses; `logger` is utils.get_logger(<literal>).

Accepted shapes in config_parser (anything else raises TranslateError): `_parse_x(d)` = [`if d is None: return
Cls()`], locals `v = d[..] | d.get(..)`, `if v is not None: v = tuple(v)`, `return Cls(field=<access | local |
float(..) | tuple(..)>, ..)`; parse_config_dict = `if "k" not in raw: raise ..`*, `v = _parse_x(raw["k"] |
raw.get("k"))` / `[_parse_x(t) for t in raw["k"]]`, `return Cls(field=v, ..)`; load_config and __post_init__ /
compute_local_xy as they are (condition of __post_init__ in the condition language above: `is not None`, `and`).
"""
import ast
import os

import py2coq

TranslateError = py2coq.TranslateError

CALLEES = {
    "compute_wind_fields": "utils",
    "ideal_source": "utils",
    "vertical_profiles": "pbl_model",
    "steady_state_transport_solver": "solver",
}
BUILTINS_USED = ("list", "range", "tuple", "float", "open", "all", "any", "bool", "getattr", "setattr")

PARSERS = [  # (function, class, Gallina name)
    ("_parse_tower", "TowerConfig", "gen_tower"),
    ("_parse_domain", "DomainConfig", "gen_domain"),
    ("_parse_met", "MetConfig", "gen_met"),
    ("_parse_solver", "SolverConfig", "gen_solver"),
    ("_parse_output", "OutputConfig", "gen_output"),
    ("_parse_parallel", "ParallelConfig", "gen_parallel"),
]
# methods a configuration class may define (anything else - a __post_init__ on another class, __setattr__,
# a property that shadows a field - is outside the model)
CLASS_METHODS = {
    "TowerConfig": {"compute_local_xy"},
    "DomainConfig": set(),
    "MetConfig": {"n_timesteps", "get_step", "validate"},  # modelled by Model/Met.v (C16)
    "SolverConfig": set(),
    "OutputConfig": set(),
    "ParallelConfig": set(),
    "BLDFMConfig": {"__post_init__"},
}


def err(node, msg):
    line = getattr(node, "lineno", "?")
    raise TranslateError("line %s: %s" % (line, msg))


# ------------------------------------------------------------------------------------------------
# Coq text


def qs(s):
    if not isinstance(s, str) or any(ord(c) < 32 or ord(c) > 126 for c in s):
        raise TranslateError("string outside printable ASCII: %r" % (s,))
    return '"%s"' % s.replace('"', '""')


def clist(items):
    return "[" + "; ".join(items) + "]"


def cstrs(names):
    return clist(qs(n) for n in names)


def copt(x):
    return "None" if x is None else "(Some %s)" % x


# ------------------------------------------------------------------------------------------------
# expressions / conditions of the tiny language


def is_doc(st):
    return isinstance(st, ast.Expr) and isinstance(st.value, ast.Constant) and isinstance(st.value.value, str)


def strip_doc(body):
    return body[1:] if body and is_doc(body[0]) else body


def const_str(node):
    return isinstance(node, ast.Constant) and isinstance(node.value, str)


def tr_ex(node):
    if isinstance(node, ast.Name):
        if not isinstance(node.ctx, ast.Load):
            err(node, "name in store context")
        return "(EName %s)" % qs(node.id)
    if isinstance(node, ast.Attribute):
        return "(EAttr %s %s)" % (tr_ex(node.value), qs(node.attr))
    if isinstance(node, ast.Subscript):
        if not const_str(node.slice):
            err(node, "subscript is not a string literal")
        return "(ESub %s %s)" % (tr_ex(node.value), qs(node.slice.value))
    if isinstance(node, ast.Tuple):
        if len(node.elts) != 2:
            err(node, "tuple display of %d elements (only pairs)" % len(node.elts))
        return "(ETuple %s %s)" % (tr_ex(node.elts[0]), tr_ex(node.elts[1]))
    if isinstance(node, ast.BinOp):
        if not isinstance(node.op, ast.Add):
            err(node, "operator %s" % type(node.op).__name__)
        return "(EAdd %s %s)" % (tr_ex(node.left), tr_ex(node.right))
    if isinstance(node, ast.Constant):
        v = node.value
        if v is None:
            return "ENone"
        if isinstance(v, bool):
            return "(EBool %s)" % ("true" if v else "false")
        if isinstance(v, int) and 0 <= v < 1000:
            return "(ENat %d)" % v
        err(node, "literal %r" % (v,))
    if isinstance(node, ast.Call):
        if node.keywords:
            err(node, "keyword argument in an expression call")
        f = node.func
        if isinstance(f, ast.Attribute) and f.attr == "get":
            if len(node.args) != 1 or not const_str(node.args[0]):
                err(node, ".get with a default / a non-literal key")
            return "(EGet %s %s)" % (tr_ex(f.value), qs(node.args[0].value))
        if isinstance(f, ast.Attribute) and f.attr == "get_step":
            if len(node.args) != 1:
                err(node, "get_step with %d arguments" % len(node.args))
            return "(EGetStep %s %s)" % (tr_ex(f.value), tr_ex(node.args[0]))
        if isinstance(f, ast.Name) and f.id == "list" and len(node.args) == 1:
            r = node.args[0]
            if (isinstance(r, ast.Call) and isinstance(r.func, ast.Name) and r.func.id == "range"
                    and len(r.args) == 1 and not r.keywords):
                return "(EListRange %s)" % tr_ex(r.args[0])
        err(node, "call %s" % ast.unparse(node)[:80])
    err(node, "expression %s (%s)" % (ast.unparse(node)[:80], type(node).__name__))


def tr_cond(node):
    if isinstance(node, ast.Compare):
        if len(node.ops) == 1 and isinstance(node.comparators[0], ast.Constant) and node.comparators[0].value is None:
            if isinstance(node.ops[0], ast.Is):
                return "(CIsNone %s)" % tr_ex(node.left)
            if isinstance(node.ops[0], ast.IsNot):
                return "(CIsNotNone %s)" % tr_ex(node.left)
        err(node, "comparison %s" % ast.unparse(node)[:80])
    if isinstance(node, ast.BoolOp):
        if not isinstance(node.op, ast.And):
            err(node, "`or` in a condition")
        out = tr_cond(node.values[-1])
        for v in reversed(node.values[:-1]):
            out = "(CAnd %s %s)" % (tr_cond(v), out)
        return out
    if isinstance(node, (ast.Name, ast.Attribute)):
        return "(CTruthy %s)" % tr_ex(node)
    err(node, "condition %s (%s)" % (ast.unparse(node)[:80], type(node).__name__))


def is_logging(st):
    if isinstance(st, ast.Expr) and isinstance(st.value, ast.Call):
        f = st.value.func
        return isinstance(f, ast.Attribute) and isinstance(f.value, ast.Name) and f.value.id == "logger"
    return False


def check_pure_log(st):
    c = st.value
    for a in list(c.args) + [k.value for k in c.keywords]:
        if isinstance(a, ast.Constant):
            continue
        tr_ex(a)  # raises on anything that is not a pure expression of the fragment
    if any(k.arg is None for k in c.keywords):
        err(st, "** in a logging call")


def targets_of(st):
    if len(st.targets) != 1:
        err(st, "chained assignment")
    t = st.targets[0]
    if isinstance(t, ast.Name):
        names = [t.id]
    elif isinstance(t, ast.Tuple) and all(isinstance(e, ast.Name) for e in t.elts):
        names = [e.id for e in t.elts]
    else:
        err(st, "assignment target %s" % ast.unparse(t)[:60])
    if len(set(names)) != len(names):
        err(st, "repeated assignment target")
    for n in names:
        if n in CALLEES or n in BUILTINS_USED or n == "logger":
            err(st, "assignment to the name %s" % n)
    return names


def tr_stmts(body):
    out = []
    for st in body:
        if is_doc(st):
            err(st, "string expression statement inside the body")
        if is_logging(st):
            check_pure_log(st)
            continue
        if isinstance(st, ast.Assign):
            names = targets_of(st)
            v = st.value
            if isinstance(v, ast.Call) and isinstance(v.func, ast.Name) and v.func.id in CALLEES:
                if any(isinstance(a, ast.Starred) for a in v.args):
                    err(st, "starred argument")
                if any(k.arg is None for k in v.keywords):
                    err(st, "** argument in the call of %s" % v.func.id)
                kws = [k.arg for k in v.keywords]
                if len(set(kws)) != len(kws):
                    err(st, "repeated keyword")
                out.append("SCall %s %s %s %s" % (
                    cstrs(names), qs(v.func.id), clist(tr_ex(a) for a in v.args),
                    clist("(%s, %s)" % (qs(k.arg), tr_ex(k.value)) for k in v.keywords)))
            else:
                out.append("SAssign %s %s" % (cstrs(names), tr_ex(v)))
        elif isinstance(st, ast.If):
            out.append("SIf %s %s %s" % (tr_cond(st.test), tr_stmts(st.body), tr_stmts(st.orelse)))
        else:
            err(st, "statement %s: %s" % (type(st).__name__, ast.unparse(st).splitlines()[0][:80]))
    return clist(out)


# ------------------------------------------------------------------------------------------------
# module-level discipline


def module_bindings(tree):
    """name -> list of (kind, node) for every module-level binding; raises on module-level control flow"""
    b = {}

    def add(n, kind, node):
        b.setdefault(n, []).append((kind, node))

    for st in tree.body:
        if is_doc(st):
            continue
        if isinstance(st, ast.Import):
            for a in st.names:
                add((a.asname or a.name).split(".")[0], "import", st)
        elif isinstance(st, ast.ImportFrom):
            for a in st.names:
                if a.name == "*":
                    err(st, "star import")
                add(a.asname or a.name, "from", (st, a))
        elif isinstance(st, (ast.FunctionDef, ast.ClassDef)):
            add(st.name, "def" if isinstance(st, ast.FunctionDef) else "class", st)
        elif isinstance(st, ast.Assign) and all(isinstance(t, ast.Name) for t in st.targets):
            for t in st.targets:
                add(t.id, "assign", st)
        elif isinstance(st, ast.AnnAssign) and isinstance(st.target, ast.Name):
            add(st.target.id, "assign", st)
        else:
            err(st, "module-level statement %s: %s" % (type(st).__name__, ast.unparse(st).splitlines()[0][:80]))
    return b


def sole(b, name, kind, where):
    got = b.get(name, [])
    if len(got) != 1 or got[0][0] != kind:
        raise TranslateError("%s: `%s` must be bound exactly once at module level, as %s (found %s)" % (
            where, name, kind, [k for k, _ in got] or "nothing"))
    return got[0][1]


def unbound(b, names, where):
    for n in names:
        if n in b:
            raise TranslateError("%s: module-level binding of the builtin name `%s`" % (where, n))


def no_global_rebinding(tree, names, where):
    """no function of the module declares one of the names `global` / `nonlocal` (run-time rebinding)"""
    for n in ast.walk(tree):
        if isinstance(n, (ast.Global, ast.Nonlocal)) and set(n.names) & names:
            err(n, "%s: `global %s`" % (where, ", ".join(sorted(set(n.names) & names))))


def plain_params(fn, where):
    a = fn.args
    if fn.decorator_list:
        raise TranslateError("%s: %s is decorated" % (where, fn.name))
    if a.posonlyargs or a.vararg or a.kwonlyargs or a.kwarg:
        raise TranslateError("%s: %s has positional-only / starred / keyword-only parameters" % (where, fn.name))
    return [x.arg for x in a.args]


def read(src, name):
    p = os.path.join(src, "bldfm", name + ".py")
    try:
        import astnorm
        return astnorm.parse_file(p)  # dict(k=v) = {'k': v}; new single-use temporaries / pure helpers / renamed locals are read as at the baseline (harness/astnorm.py)
    except (OSError, SyntaxError) as e:
        raise TranslateError("cannot parse %s: %s" % (p, e))


# ------------------------------------------------------------------------------------------------
# (a) run_bldfm_single


def translate_plumb(src):
    tree = read(src, "interface")
    b = module_bindings(tree)
    unbound(b, BUILTINS_USED, "interface.py")
    sigs = []
    trees = {}
    for fn, mod in CALLEES.items():
        st, alias = sole(b, fn, "from", "interface.py")
        if st.level != 1 or st.module != mod or alias.asname is not None:
            raise TranslateError("interface.py: %s is imported from %s%s, the model has .%s" % (
                fn, "." * st.level, st.module, mod))
        if mod not in trees:
            trees[mod] = module_bindings_lenient(read(src, mod))
        mb = trees[mod]
        d = mb.get(fn, [])
        if len(d) != 1 or d[0][0] != "def":
            raise TranslateError("%s.py: `%s` must be defined exactly once, as a plain function (found %s)" % (
                mod, fn, [k for k, _ in d] or "nothing"))
        sigs.append("(%s, %s)" % (qs(fn), cstrs(plain_params(d[0][1], mod + ".py"))))
    lg = sole(b, "logger", "assign", "interface.py")
    gl, ga = sole(b, "get_logger", "from", "interface.py")
    if not (gl.level == 1 and gl.module == "utils" and ga.asname is None and isinstance(lg, ast.Assign)
            and isinstance(lg.value, ast.Call) and isinstance(lg.value.func, ast.Name) and lg.value.func.id == "get_logger"
            and all(isinstance(x, ast.Constant) for x in lg.value.args) and not lg.value.keywords):
        raise TranslateError("interface.py: `logger` is not utils.get_logger(<literal>)")
    no_global_rebinding(tree, set(CALLEES) | set(BUILTINS_USED) | {"logger", "run_bldfm_single"}, "interface.py")
    f = sole(b, "run_bldfm_single", "def", "interface.py")
    params = plain_params(f, "interface.py")
    if len(set(params)) != len(params) or set(params) & (set(CALLEES) | set(BUILTINS_USED) | {"logger"}):
        raise TranslateError("repeated parameter / a parameter shadows a function the body uses")
    defaults = [None] * (len(params) - len(f.args.defaults)) + list(f.args.defaults)
    ptxt = clist("(%s, %s)" % (qs(p), copt(None if d is None else tr_ex(d))) for p, d in zip(params, defaults))
    body = strip_doc(f.body)
    if not body or not isinstance(body[-1], ast.Return):
        raise TranslateError("run_bldfm_single does not end with a return statement")
    ret = body[-1].value
    if not isinstance(ret, ast.Dict) or not all(const_str(k) for k in ret.keys):
        err(body[-1], "the returned value is not a dict display with literal keys")
    keys = [k.value for k in ret.keys]
    if len(set(keys)) != len(keys):
        err(body[-1], "repeated key in the returned dict")
    rtxt = clist("(%s, %s)" % (qs(k.value), tr_ex(v)) for k, v in zip(ret.keys, ret.values))
    stmts = tr_stmts(body[:-1])
    return ("Definition gen_sigs : list (string * list string) :=\n  %s.\n\n"
            "Definition gen_plumb : fn_desc := mkFn\n  %s\n  %s\n  %s.\n" % (clist(sigs), ptxt, pretty(stmts), rtxt))


def module_bindings_lenient(tree):
    """bindings of a module we only take a signature from: every top-level statement that can bind a name is
    recorded (compound statements: all names stored anywhere inside, conservatively)"""
    b = {}
    for st in tree.body:
        if isinstance(st, ast.FunctionDef):
            b.setdefault(st.name, []).append(("def", st))
        elif isinstance(st, (ast.ClassDef, ast.AsyncFunctionDef)):
            b.setdefault(st.name, []).append(("other", st))
        elif isinstance(st, (ast.Import, ast.ImportFrom)):
            for a in st.names:
                if a.name == "*":
                    err(st, "star import")
                b.setdefault((a.asname or a.name).split(".")[0], []).append(("import", st))
        else:
            for n in ast.walk(st):
                if isinstance(n, ast.Name) and isinstance(n.ctx, (ast.Store, ast.Del)):
                    b.setdefault(n.id, []).append(("assign", st))
                elif isinstance(n, (ast.FunctionDef, ast.ClassDef)):
                    b.setdefault(n.name, []).append(("other", st))
                elif isinstance(n, (ast.Import, ast.ImportFrom)):
                    for a in n.names:
                        b.setdefault((a.asname or a.name).split(".")[0], []).append(("import", st))
    return b


def pretty(s):
    """line breaks between top-level statements of a Coq list (readability of the generated file only)"""
    out, depth, cur = [], 0, ""
    for ch in s:
        if ch in "([":
            depth += 1
        elif ch in ")]":
            depth -= 1
        cur += ch
        if ch == ";" and depth == 1:
            out.append(cur)
            cur = ""
    out.append(cur)
    return "\n   ".join(x.strip() for x in out)


# ------------------------------------------------------------------------------------------------
# (b) config_parser


def tr_lit(node):
    if isinstance(node, ast.Constant):
        v = node.value
        if v is None:
            return "LNone"
        if isinstance(v, bool):
            return "(LBool %s)" % ("true" if v else "false")
        if isinstance(v, int):
            return "(LInt (%d))" % v
        if isinstance(v, float):
            if v != v or v in (float("inf"), float("-inf")):
                err(node, "non-finite literal")
            n, d = v.as_integer_ratio()
            return "(LFloat (%d) (%d))" % (n, d)
        if isinstance(v, str):
            return "(LStr %s)" % qs(v)
        err(node, "literal %r" % (v,))
    if isinstance(node, ast.UnaryOp) and isinstance(node.op, ast.USub) and isinstance(node.operand, ast.Constant) \
            and isinstance(node.operand.value, (int, float)) and not isinstance(node.operand.value, bool):
        v = -node.operand.value
        return tr_lit(ast.copy_location(ast.Constant(value=v), node))
    if isinstance(node, (ast.Tuple, ast.List)):
        return "(LSeq %s)" % clist(tr_lit(e) for e in node.elts)
    err(node, "default %s is not a literal" % ast.unparse(node)[:60])


def tr_classes(b):
    out = []
    methods = {}
    for cls in CLASS_METHODS:
        c = sole(b, cls, "class", "config_parser.py")
        if c.bases or c.keywords:
            err(c, "class %s has bases" % cls)
        if len(c.decorator_list) != 1 or not (isinstance(c.decorator_list[0], ast.Name) and c.decorator_list[0].id == "dataclass"):
            err(c, "class %s is not decorated with exactly @dataclass" % cls)
        fields = []
        for st in strip_doc(c.body):
            if isinstance(st, ast.AnnAssign) and isinstance(st.target, ast.Name) and st.simple:
                if st.value is None:
                    d = None
                elif (isinstance(st.value, ast.Call) and isinstance(st.value.func, ast.Name) and st.value.func.id == "field"
                      and not st.value.args and len(st.value.keywords) == 1 and st.value.keywords[0].arg == "default_factory"
                      and isinstance(st.value.keywords[0].value, ast.Name)):
                    d = "(LFactory %s)" % qs(st.value.keywords[0].value.id)
                else:
                    d = tr_lit(st.value)
                fields.append((st.target.id, d))
            elif isinstance(st, ast.FunctionDef):
                if st.name not in CLASS_METHODS[cls]:
                    err(st, "method %s.%s is outside the model" % (cls, st.name))
                if (cls, st.name) in methods:
                    err(st, "method defined twice")
                methods[(cls, st.name)] = st
            else:
                err(st, "statement in class %s: %s" % (cls, ast.unparse(st).splitlines()[0][:80]))
        names = [f for f, _ in fields]
        if len(set(names)) != len(names):
            err(c, "field declared twice in %s" % cls)
        if set(names) & {m for (k, m) in methods if k == cls}:
            err(c, "a method shadows a field in %s" % cls)
        out.append("(%s, %s)" % (qs(cls), clist("(%s, %s)" % (qs(f), copt(d)) for f, d in fields)))
    return "Definition gen_classes : class_table :=\n  %s.\n" % clist(out).replace("); (\"", ");\n   (\""), methods


def tr_access(node, d):
    """d["k"] | d.get("k") | d.get("k", lit)  ->  (key, acc, literal or None)"""
    if isinstance(node, ast.Subscript) and isinstance(node.value, ast.Name) and node.value.id == d and const_str(node.slice):
        return node.slice.value, "AReq", None
    if (isinstance(node, ast.Call) and isinstance(node.func, ast.Attribute) and node.func.attr == "get"
            and isinstance(node.func.value, ast.Name) and node.func.value.id == d and not node.keywords
            and 1 <= len(node.args) <= 2 and const_str(node.args[0])):
        if len(node.args) == 1 or (isinstance(node.args[1], ast.Constant) and node.args[1].value is None):
            return node.args[0].value, "AOpt", None
        return node.args[0].value, "ADef", tr_lit(node.args[1])
    return None


def tr_parser(b, fname, cls, gname):
    f = sole(b, fname, "def", "config_parser.py")
    params = plain_params(f, "config_parser.py")
    if len(params) != 1 or f.args.defaults:
        err(f, "%s must take exactly one parameter" % fname)
    d = params[0]
    if d in BUILTINS_USED or d == cls:
        err(f, "parameter name %s" % d)
    body = strip_doc(f.body)
    none_default = False
    if body and isinstance(body[0], ast.If):
        st = body[0]
        t = st.test
        ok = (isinstance(t, ast.Compare) and isinstance(t.left, ast.Name) and t.left.id == d and len(t.ops) == 1
              and isinstance(t.ops[0], ast.Is) and isinstance(t.comparators[0], ast.Constant) and t.comparators[0].value is None
              and not st.orelse and len(st.body) == 1 and isinstance(st.body[0], ast.Return)
              and isinstance(st.body[0].value, ast.Call) and isinstance(st.body[0].value.func, ast.Name)
              and st.body[0].value.func.id == cls and not st.body[0].value.args and not st.body[0].value.keywords)
        if ok:
            none_default = True
            body = body[1:]
    if not body or not isinstance(body[-1], ast.Return):
        err(f, "%s does not end with a return" % fname)
    bound = {}  # local name -> [key, acc, lit, conv, used]
    order = []
    for st in body[:-1]:
        if isinstance(st, ast.Assign) and len(st.targets) == 1 and isinstance(st.targets[0], ast.Name):
            n = st.targets[0].id
            a = tr_access(st.value, d)
            if a is None or n in bound or n == d or n in BUILTINS_USED or n == cls:
                err(st, "statement of %s: %s" % (fname, ast.unparse(st)[:80]))
            bound[n] = [a[0], a[1], a[2], "CvId", 0]
            order.append(n)
        elif isinstance(st, ast.If):
            t = st.test
            ok = (isinstance(t, ast.Compare) and isinstance(t.left, ast.Name) and t.left.id in bound and len(t.ops) == 1
                  and isinstance(t.ops[0], ast.IsNot) and isinstance(t.comparators[0], ast.Constant)
                  and t.comparators[0].value is None and not st.orelse and len(st.body) == 1)
            n = t.left.id if ok else None
            s = st.body[0] if ok else None
            ok = ok and (isinstance(s, ast.Assign) and len(s.targets) == 1 and isinstance(s.targets[0], ast.Name)
                         and s.targets[0].id == n and isinstance(s.value, ast.Call) and isinstance(s.value.func, ast.Name)
                         and s.value.func.id == "tuple" and not s.value.keywords and len(s.value.args) == 1
                         and isinstance(s.value.args[0], ast.Name) and s.value.args[0].id == n)
            if not ok or bound[n][3] != "CvId":
                err(st, "statement of %s: %s" % (fname, ast.unparse(st).splitlines()[0][:80]))
            bound[n][3] = "CvTupleIfNotNone"
        else:
            err(st, "statement of %s: %s" % (fname, ast.unparse(st).splitlines()[0][:80]))
    call = body[-1].value
    if not (isinstance(call, ast.Call) and isinstance(call.func, ast.Name) and call.func.id == cls and not call.args):
        err(body[-1], "%s does not return %s(field=..)" % (fname, cls))
    rows_named = {}
    rows_direct = []
    lits = []
    seen = set()
    for k in call.keywords:
        if k.arg is None or k.arg in seen:
            err(body[-1], "** or repeated keyword in %s(..)" % cls)
        seen.add(k.arg)
        v = k.value
        conv = "CvId"
        if isinstance(v, ast.Call) and isinstance(v.func, ast.Name) and v.func.id in ("float", "tuple") \
                and len(v.args) == 1 and not v.keywords:
            conv = "CvFloat" if v.func.id == "float" else "CvTuple"
            v = v.args[0]
        if isinstance(v, ast.Name) and v.id in bound:
            e = bound[v.id]
            if e[4] or (conv != "CvId" and e[3] != "CvId"):
                err(k.value, "local %s used twice / converted twice" % v.id)
            e[4] = 1
            rows_named[v.id] = (k.arg, e[0], e[1], conv if conv != "CvId" else e[3])
            if e[2] is not None:
                lits.append((v.id, "(%s, %s)" % (qs(k.arg), e[2])))
            continue
        a = tr_access(v, d)
        if a is None:
            err(k.value, "field %s of %s: %s" % (k.arg, cls, ast.unparse(k.value)[:80]))
        rows_direct.append((k.arg, a[0], a[1], conv))
        if a[2] is not None:
            lits.append((None, "(%s, %s)" % (qs(k.arg), a[2])))
    for n in order:
        if not bound[n][4]:
            err(f, "local %s of %s is not used" % (n, fname))
    rows = [rows_named[n] for n in order] + rows_direct
    lit_rows = [t for n in order for (m, t) in lits if m == n] + [t for (m, t) in lits if m is None]
    txt = "Definition %s : section_desc := mkSection %s %s %s\n  %s.\n" % (
        gname, qs(fname), qs(cls), "true" if none_default else "false",
        clist("mkRow %s %s %s %s" % (qs(fl), qs(key), acc, conv) for fl, key, acc, conv in rows))
    return txt, "(%s, %s)" % (qs(fname), clist(lit_rows))


def tr_top(b):
    f = sole(b, "parse_config_dict", "def", "config_parser.py")
    params = plain_params(f, "config_parser.py")
    if len(params) != 1 or f.args.defaults:
        err(f, "parse_config_dict must take exactly one parameter")
    raw = params[0]
    body = strip_doc(f.body)
    required = []
    while body and isinstance(body[0], ast.If):
        st = body[0]
        t = st.test
        ok = (isinstance(t, ast.Compare) and const_str(t.left) and len(t.ops) == 1 and isinstance(t.ops[0], ast.NotIn)
              and isinstance(t.comparators[0], ast.Name) and t.comparators[0].id == raw and not st.orelse
              and len(st.body) == 1 and isinstance(st.body[0], ast.Raise))
        if not ok:
            err(st, "statement of parse_config_dict: %s" % ast.unparse(st).splitlines()[0][:80])
        required.append(t.left.value)
        body = body[1:]
    if not body or not isinstance(body[-1], ast.Return):
        err(f, "parse_config_dict does not end with a return")
    pf = {p[0] for p in PARSERS}

    def raw_access(node):
        if isinstance(node, ast.Subscript) and isinstance(node.value, ast.Name) and node.value.id == raw and const_str(node.slice):
            return node.slice.value, True
        if (isinstance(node, ast.Call) and isinstance(node.func, ast.Attribute) and node.func.attr == "get"
                and isinstance(node.func.value, ast.Name) and node.func.value.id == raw and not node.keywords
                and len(node.args) == 1 and const_str(node.args[0])):
            return node.args[0].value, False
        return None

    bound, order = {}, []
    for st in body[:-1]:
        ok = isinstance(st, ast.Assign) and len(st.targets) == 1 and isinstance(st.targets[0], ast.Name)
        n = st.targets[0].id if ok else None
        v = st.value if ok else None
        ent = None
        if ok and isinstance(v, ast.Call) and isinstance(v.func, ast.Name) and v.func.id in pf and len(v.args) == 1 and not v.keywords:
            a = raw_access(v.args[0])
            if a:
                ent = [a[0], "TReq" if a[1] else "TOpt", v.func.id, 0]
        elif ok and isinstance(v, ast.ListComp) and len(v.generators) == 1:
            g = v.generators[0]
            e = v.elt
            a = raw_access(g.iter)
            if (a and a[1] and not g.ifs and not g.is_async and isinstance(g.target, ast.Name)
                    and isinstance(e, ast.Call) and isinstance(e.func, ast.Name) and e.func.id in pf and not e.keywords
                    and len(e.args) == 1 and isinstance(e.args[0], ast.Name) and e.args[0].id == g.target.id):
                ent = [a[0], "TReqEach", e.func.id, 0]
        if ent is None or n in bound or n == raw:
            err(st, "statement of parse_config_dict: %s" % ast.unparse(st).splitlines()[0][:80])
        bound[n] = ent
        order.append(n)
    call = body[-1].value
    if not (isinstance(call, ast.Call) and isinstance(call.func, ast.Name) and not call.args):
        err(body[-1], "parse_config_dict does not return Cls(field=..)")
    field_of = {}
    for k in call.keywords:
        if k.arg is None or not (isinstance(k.value, ast.Name) and k.value.id in bound) or bound[k.value.id][3]:
            err(body[-1], "argument of %s(..): %s" % (call.func.id, ast.unparse(k.value)[:60]))
        bound[k.value.id][3] = 1
        field_of[k.value.id] = k.arg
    if len(field_of) != len(order) or len({k.arg for k in call.keywords}) != len(call.keywords):
        err(body[-1], "a parsed section is not handed to %s / repeated keyword" % call.func.id)
    rows = clist("mkTop %s %s %s %s" % (qs(field_of[n]), qs(bound[n][0]), bound[n][1], qs(bound[n][2])) for n in order)
    return "Definition gen_top : top_desc := mkTopDesc %s\n  %s %s.\n" % (cstrs(required), rows, qs(call.func.id))


def tr_load(b):
    f = sole(b, "load_config", "def", "config_parser.py")
    params = plain_params(f, "config_parser.py")
    if len(params) != 1 or f.args.defaults:
        err(f, "load_config must take exactly one parameter")
    body = strip_doc(f.body)
    p = params[0]

    def dump(n):
        return ast.dump(n, annotate_fields=False)

    def name(i):
        return dump(ast.Name(id=i, ctx=ast.Load()))

    try:
        s0, s1, s2, s3 = body
        ok = dump(s0) == dump(ast.parse("%s = Path(%s)" % (p, p)).body[0])
        ok = ok and isinstance(s1, ast.If) and not s1.orelse and len(s1.body) == 1 and isinstance(s1.body[0], ast.Raise) \
            and dump(s1.test) == dump(ast.parse("not %s.exists()" % p).body[0].value)
        ok = ok and isinstance(s2, ast.With) and len(s2.items) == 1 and len(s2.body) == 1 \
            and dump(s2.items[0].context_expr) == dump(ast.parse("open(%s)" % p).body[0].value) \
            and isinstance(s2.items[0].optional_vars, ast.Name) and isinstance(s2.body[0], ast.Assign) \
            and len(s2.body[0].targets) == 1 and isinstance(s2.body[0].targets[0], ast.Name)
        fvar = s2.items[0].optional_vars.id
        rvar = s2.body[0].targets[0].id
        load = s2.body[0].value
        ok = ok and isinstance(load, ast.Call) and not load.keywords and len(load.args) == 1 and dump(load.args[0]) == name(fvar) \
            and isinstance(load.func, ast.Attribute) and isinstance(load.func.value, ast.Name)
        ok = ok and isinstance(s3, ast.Return) and isinstance(s3.value, ast.Call) and isinstance(s3.value.func, ast.Name) \
            and not s3.value.keywords and len(s3.value.args) == 1 and dump(s3.value.args[0]) == name(rvar) and rvar != fvar
    except (ValueError, AttributeError, IndexError):
        ok = False
    if not ok:
        err(f, "load_config is not `path = Path(path); if not path.exists(): raise; with open(path) as f: raw = <loader>(f); return <parser>(raw)`")
    sole(b, load.func.value.id, "import", "config_parser.py")
    sole(b, "Path", "from", "config_parser.py")
    return "Definition gen_load : load_desc := mkLoad %s %s.\n" % (
        qs(load.func.value.id + "." + load.func.attr), qs(s3.value.func.id))


def tr_post_init(methods):
    f = methods.get(("BLDFMConfig", "__post_init__"))
    if f is None:
        raise TranslateError("BLDFMConfig.__post_init__ not found")
    if plain_params(f, "config_parser.py") != ["self"] or f.args.defaults:
        err(f, "__post_init__ parameters")
    body = strip_doc(f.body)
    try:
        s0, s1 = body
        ok = isinstance(s0, ast.If) and not s0.orelse and len(s0.body) == 1 and isinstance(s0.body[0], ast.For)
        loop = s0.body[0]
        ok = ok and not loop.orelse and isinstance(loop.target, ast.Name) and len(loop.body) == 1 \
            and isinstance(loop.body[0], ast.Expr) and isinstance(loop.body[0].value, ast.Call)
        c = loop.body[0].value
        ok = ok and isinstance(c.func, ast.Attribute) and isinstance(c.func.value, ast.Name) \
            and c.func.value.id == loop.target.id and not c.keywords and loop.target.id != "self" \
            and not any(isinstance(a, ast.Starred) for a in c.args)
        ok = ok and isinstance(s1, ast.Expr) and isinstance(s1.value, ast.Call) and isinstance(s1.value.func, ast.Attribute) \
            and s1.value.func.attr == "validate" and not s1.value.args and not s1.value.keywords
    except (ValueError, AttributeError, IndexError):
        ok = False
    if not ok:
        err(f, "__post_init__ is not `if <cond>: for t in <towers>: t.<method>(<args>)` followed by `<met>.validate()`")
    for a in c.args:
        if any(isinstance(n, ast.Name) and n.id == loop.target.id for n in ast.walk(a)):
            err(f, "the loop variable occurs in an argument")
    return "Definition gen_post_init : post_init_desc := mkPostInit\n  %s\n  %s %s %s %s.\n" % (
        tr_cond(s0.test), tr_ex(loop.iter), qs(c.func.attr), clist(tr_ex(a) for a in c.args), tr_ex(s1.value.func.value))


def tr_local_xy(methods):
    f = methods.get(("TowerConfig", "compute_local_xy"))
    if f is None:
        raise TranslateError("TowerConfig.compute_local_xy not found")
    params = plain_params(f, "config_parser.py")
    if not params or params[0] != "self" or f.args.defaults or len(set(params)) != len(params):
        err(f, "compute_local_xy parameters")
    body = strip_doc(f.body)
    ok = len(body) == 1 and isinstance(body[0], ast.Assign) and len(body[0].targets) == 1 \
        and isinstance(body[0].targets[0], ast.Tuple) \
        and all(isinstance(t, ast.Attribute) and isinstance(t.value, ast.Name) and t.value.id == "self" for t in body[0].targets[0].elts) \
        and isinstance(body[0].value, ast.Call) and isinstance(body[0].value.func, ast.Name) and not body[0].value.keywords \
        and not any(isinstance(a, ast.Starred) for a in body[0].value.args)
    if not ok:
        err(f, "compute_local_xy is not `self.a, self.b = <function>(<args>)`")
    c = body[0].value
    return "Definition gen_local_xy : local_xy_desc := mkLocalXY %s %s %s %s\n  %s.\n" % (
        qs(f.name), cstrs(params[1:]), cstrs(t.attr for t in body[0].targets[0].elts), qs(c.func.id),
        clist(tr_ex(a) for a in c.args))


def translate_parser(src):
    tree = read(src, "config_parser")
    b = module_bindings(tree)
    unbound(b, BUILTINS_USED, "config_parser.py")
    for n in ("dataclass", "field"):
        st, alias = sole(b, n, "from", "config_parser.py")
        if st.module != "dataclasses" or st.level != 0 or alias.asname is not None:
            raise TranslateError("config_parser.py: `%s` is not dataclasses.%s" % (n, n))
    sole(b, "latlon_to_xy", "def", "config_parser.py")
    no_global_rebinding(tree, set(CLASS_METHODS) | {p[0] for p in PARSERS} | set(BUILTINS_USED)
                        | {"latlon_to_xy", "parse_config_dict", "load_config", "dataclass", "field", "yaml", "Path"},
                        "config_parser.py")
    classes, methods = tr_classes(b)
    secs, lits = [], []
    for fname, cls, gname in PARSERS:
        t, l = tr_parser(b, fname, cls, gname)
        secs.append(t)
        lits.append(l)
    out = [classes, "\n".join(secs),
           "Definition gen_lits : lit_table :=\n  %s.\n" % clist(lits).replace("); (\"_", ");\n   (\"_"),
           tr_top(b), tr_load(b), tr_post_init(methods), tr_local_xy(methods)]
    return "\n".join(out)


HEADER = """(* GENERATED by harness/py2coq_interface.py from the current source of bldfm/interface.py and
   bldfm/config_parser.py (and the signatures in utils.py, pbl_model.py, solver.py).  Do not edit. *)
From Coq Require Import List String ZArith Bool.
From BL Require Import Model.InterfaceDesc.
Import ListNotations.
Open Scope string_scope.
Open Scope list_scope.

"""


def translate(src):
    """src: the directory that contains the package `bldfm` (core.SRC).  Returns the texts of the two generated
    files {"GenInterface.v": run_bldfm_single, "GenConfigParser.v": config_parser}; a part that is outside the
    supported fragment is a TranslateError INSTANCE in place of the text (the other part is still produced)."""
    out = {}
    for name, fn in (("GenInterface.v", translate_plumb), ("GenConfigParser.v", translate_parser)):
        try:
            out[name] = HEADER + fn(src)
        except TranslateError as e:
            out[name] = e
        except RecursionError as e:
            out[name] = TranslateError("source too deeply nested: %s" % e)
    return out


BRIDGES = (("GenInterface.v", "InterfaceBridge.v"), ("GenConfigParser.v", "ConfigParserBridge.v"))


def bridge(ctx, only=None):
    """Tie (B) of C13 (with only=("GenConfigParser.v",): the configuration-parser part alone, an obligation of every property
    whose anchors lie in config_parser.py - C08, C16, C17): regenerate Gen/GenInterface.v and Gen/GenConfigParser.v from core.SRC and re-prove
    coq/Bridge/InterfaceBridge.v and coq/Bridge/ConfigParserBridge.v against them.  A TranslateError is the failed
    obligation gen:<file>; the bridge lemmas of that file are then listed as not discharged."""
    import re

    import core

    texts = translate(core.SRC)
    ok_all = True
    cov = {}
    for gen, br in BRIDGES:
        if only and gen not in only:
            continue
        names = re.findall(r"^\s*(?:Lemma|Theorem)\s+([\w']+)",
                           core.strip_coq_comments(open(os.path.join(core.COQ, "Bridge", br)).read()), re.M)
        text = texts[gen]
        if isinstance(text, TranslateError):
            ctx.obligation("gen:" + gen, False,
                           "translator failed closed (source outside the supported fragment): %s" % text)
            # not discharged; the cause is reported once, through gen:<file>
            ctx.obligations.extend(("bridge:" + n, False, "not reached (%s could not be generated)" % gen) for n in names)
            ok_all = False
            cov[gen] = {"translated": False, "bridge_lemmas": len(names), "proved": False}
            continue
        ok = core.run_bridge(ctx, {gen: text}, [br])
        if not any(o[0] == "gen:" + gen for o in ctx.obligations):
            ctx.obligation("gen:" + gen, True)
        ok_all = ok_all and ok
        cov[gen] = {"translated": True, "generated_definitions": len(re.findall(r"^Definition gen_", text, re.M)),
                    "bridge_lemmas": len(names), "proved": bool(ok)}
    ctx.cov["interface_bridge"] = cov
    return ok_all


if __name__ == "__main__":
    import sys

    for _name, _text in translate(sys.argv[1] if len(sys.argv) > 1 else "/repo/src").items():
        if isinstance(_text, TranslateError):
            sys.stdout.write("(* %s: TranslateError: %s *)\n" % (_name, _text))
        else:
            sys.stdout.write("(* ---- %s ---- *)\n%s\n" % (_name, _text))
