"""Fail-closed translator for the PROCESS-GLOBAL STATE HANDLING of bldfm (tie B of property C12).

Reads the CURRENT source of

    config.py                        module-level constants (NUM_THREADS ...)
    fft_manager.py                   module globals, class FFTManager (__init__, fft2, ifft2 translated; every other method
                                     scanned: it may not touch tracked state nor store into `self`), get_fft_manager,
                                     reset_fft_manager, module-level fft2 / ifft2
    utils.parallelize                the `_compiled` dict, the wrapper (flag from config.NUM_THREADS, membership test,
                                     renamed copy of the function, numba.jit options, the dispatcher call)
    solver.py                        module-level statements, the decorator of ivp_solver, and the STATE SKELETON of
                                     steady_state_transport_solver: every statement that reads or writes tracked state
                                     or calls fft2 / ifft2 / get_fft_manager / reset_fft_manager / set_num_threads /
                                     ivp_solver, with the control flow it sits in, and every `raise`

with `ast` and emits closed terms of the description language of coq/Model/RuntimeDesc.v (`GenRuntime.v`, regenerated on
every run).  The MEANING of the terms is the interpreter of RuntimeDesc.v; coq/Bridge/RuntimeBridge.v re-proves on every
run, for all worlds / thread counts / ops, that the interpreted description equals Model/Runtime.v.

Tracked state: config.NUM_THREADS (GCfg), numba's thread count (GNumba: set_num_threads / get_num_threads),
fft_manager._fft_manager (GMgr), pyfftw.config.NUM_THREADS (GPyfftw), the manager's num_threads, parallelize's _compiled.

The translation keeps the shape of the source (names are resolved through the import tables and Python's scoping rule:
a name assigned in a function without `global` is a local):
    x = e                                   SAssign x e          (dropped when x is never read by a tracked expression)
    <cell> = e / set_num_threads(e)         SSetGlobal cell e
    self.num_threads = e  (in __init__)     SSetSelfThreads e
    target.__qualname__ = e                 SSetFunAttr target "qualname" e
    _compiled[k] = v                        SCompiledSet k v
    if c: A else: B                         SIf c A B            (c over tracked values)
    x = f(...), f(...), return f(...)       SCall x (CFun f | CNew | CMethod recv m) args   (positional / keyword as written)
    pyfftw_fft.fft2(data, norm=..)          STransform x inverse threads
    _compiled[k](*args, **kwargs)           SKernel x (ECompiledGet k)
    pyfftw.interfaces.cache.*, atexit.register, self.<scanned method>()      SExtern name
    raise ...                               SRaisePoint i        (numbered in source order)
    return e                                SReturn e
Numerical code is OPAQUE: an expression / statement / loop / conditional that neither reads tracked state nor calls anything
but whitelisted pure callees (numpy, numpy.fft helpers, builtins, methods of local values, logging) is dropped; the locals
it binds become EOpaqueE where a tracked expression reads them.  A conditional on numerical values may contain only
numerical statements and `raise`.
ANYTHING else raises TranslateError -> obligation gen:GenRuntime.v fails -> the check searches for a failing input:
a call of an unknown function (a new helper, a method of `self` that stores into `self`), a module-level assignment
other than the known ones (a memo dict), a mutable default argument, a read of tracked state inside a numerical
expression, a tracked call inside a loop / try / with / lambda / comprehension / conditional expression, an alias of a
tracked function, a decorator other than the bare `parallelize` on ivp_solver, `global` of anything but _fft_manager,
a store into `self` outside __init__, nested function definitions."""
import ast
import os

from py2coq import TranslateError

N_TERMS = 0

PURE_PREFIXES = ("numpy.",)
PURE_EXACT = {"pathlib.Path", "numpy.fft.fftshift", "numpy.fft.ifftshift", "numpy.fft.fftfreq"}
PURE_BUILTINS = {"int", "len", "range", "float", "abs", "min", "max", "tuple", "list", "str", "bool", "all", "any", "sum",
                 "isinstance", "enumerate", "zip", "round", "repr", "sorted", "dict", "set",
                 "ValueError", "TypeError", "RuntimeError", "KeyError", "IndexError", "Exception", "NotImplementedError"}
EXTERN_PREFIXES = ("pyfftw.interfaces.cache.",)
EXTERN_EXACT = {"atexit.register", "pyfftw.import_wisdom", "pyfftw.export_wisdom", "pickle.load", "pickle.dump", "open"}
SOLVER_TRACKED_ARGS = {"footprint", "analytic", "cache"}
CELLS = {"bldfm.config.NUM_THREADS": "GCfg", "pyfftw.config.NUM_THREADS": "GPyfftw", "bldfm.fft_manager._fft_manager": "GMgr"}
FFT_FUNCS = ["get_fft_manager", "reset_fft_manager", "fft2", "ifft2"]
TRANSFORMS = {"pyfftw.interfaces.numpy_fft.fft2": False, "pyfftw.interfaces.numpy_fft.ifft2": True}
TRANSLATED_METHODS = ["__init__", "fft2", "ifft2"]
TRACKED_PREFIXES = ("bldfm.config", "pyfftw.config", "bldfm.fft_manager", "numba.", "bldfm.utils.parallelize",
                    "pyfftw.interfaces.numpy_fft", "pyfftw.builders", "pyfftw.FFTW")


def err(node, msg, where=""):
    ln = getattr(node, "lineno", "?")
    raise TranslateError("%s:%s: %s [%s]" % (where, ln, msg, ast.unparse(node)[:120] if isinstance(node, ast.AST) else ""))


# ------------------------------------------------------------------------------------------------ Coq printing


def cstr(s):
    if '"' in s or "\\" in s or any(ord(c) < 32 or ord(c) > 126 for c in s):
        raise TranslateError("string literal outside the printable fragment: %r" % s)
    return '"%s"' % s


def cval(v):
    k = v[0]
    if k == "VNone":
        return "VNone"
    if k == "VNat":
        if v[1] > 5000:
            raise TranslateError("integer literal too large: %d" % v[1])
        return "(VNat %d)" % v[1]
    if k == "VBool":
        return "(VBool %s)" % ("true" if v[1] else "false")
    if k == "VStr":
        return "(VStr %s)" % cstr(v[1])
    if k == "VOpaque":
        return "VOpaque"
    raise TranslateError("value %r" % (v,))


def cexpr(e):
    k = e[0]
    if k == "EConst":
        return "(EConst %s)" % cval(e[1])
    if k == "EVar":
        return "(EVar %s)" % cstr(e[1])
    if k == "EGlobal":
        return "(EGlobal %s)" % e[1]
    if k in ("EThreadsOf", "EIsNone", "ENot", "EInCompiled", "ECompiledGet", "ERetarget"):
        return "(%s %s)" % (k, cexpr(e[1]))
    if k == "ECmp":
        return "(ECmp %s %s %s)" % (e[1], cexpr(e[2]), cexpr(e[3]))
    if k in ("EAnd", "EOr", "EConcat"):
        return "(%s %s %s)" % (k, cexpr(e[1]), cexpr(e[2]))
    if k == "EIfExp":
        return "(EIfExp %s %s %s)" % (cexpr(e[1]), cexpr(e[2]), cexpr(e[3]))
    if k == "EJit":
        return "(EJit %s %s %s %s)" % tuple(cexpr(x) for x in e[1:])
    if k in ("EFunc", "EOpaqueE"):
        return k
    raise TranslateError("expr %r" % (e,))


def copt_s(x):
    return "None" if x is None else "(Some %s)" % cstr(x)


def cargs(args):
    return "[" + "; ".join("(%s, %s)" % (copt_s(n), cexpr(e)) for n, e in args) + "]"


def cstmts(ss, ind):
    if not ss:
        return "[]"
    pad = " " * ind
    return "[\n" + (";\n").join(pad + "  " + cstmt(s, ind + 2) for s in ss) + "\n" + pad + "]"


def cstmt(s, ind):
    k = s[0]
    if k == "SAssign":
        return "SAssign %s %s" % (cstr(s[1]), cexpr(s[2]))
    if k == "SSetGlobal":
        return "SSetGlobal %s %s" % (s[1], cexpr(s[2]))
    if k == "SSetSelfThreads":
        return "SSetSelfThreads %s" % cexpr(s[1])
    if k == "SSetFunAttr":
        return "SSetFunAttr %s %s %s" % (cstr(s[1]), cstr(s[2]), cexpr(s[3]))
    if k == "SCompiledSet":
        return "SCompiledSet %s %s" % (cexpr(s[1]), cexpr(s[2]))
    if k == "SIf":
        return "SIf %s %s %s" % (cexpr(s[1]), cstmts(s[2], ind), cstmts(s[3], ind))
    if k == "SCall":
        c = s[2]
        if c[0] == "CFun":
            cc = "(CFun %s)" % cstr(c[1])
        elif c[0] == "CNew":
            cc = "CNew"
        else:
            cc = "(CMethod %s %s)" % (cexpr(c[1]), cstr(c[2]))
        return "SCall %s %s %s" % (copt_s(s[1]), cc, cargs(s[3]))
    if k == "STransform":
        return "STransform %s %s %s" % (copt_s(s[1]), "true" if s[2] else "false", "None" if s[3] is None else "(Some %s)" % cexpr(s[3]))
    if k == "SKernel":
        return "SKernel %s %s" % (copt_s(s[1]), cexpr(s[2]))
    if k == "SExtern":
        return "SExtern %s" % cstr(s[1])
    if k == "SRaisePoint":
        return "SRaisePoint %d" % s[1]
    if k == "SReturn":
        return "SReturn %s" % cexpr(s[1])
    raise TranslateError("stmt %r" % (s,))


# ------------------------------------------------------------------------------------------------ modules


class Module:
    """one source file: import table, module-level names"""

    def __init__(self, src, rel, modname):
        self.path = os.path.join(src, "bldfm", rel)
        self.rel = rel
        self.modname = modname
        try:
            self.tree = ast.parse(open(self.path).read())
        except (OSError, SyntaxError) as e:
            raise TranslateError("%s: cannot parse: %s" % (rel, e))
        self.imports = {}
        self.funcs = {}
        self.classes = {}
        for st in self.tree.body:
            if isinstance(st, ast.Import):
                for a in st.names:
                    if a.asname:
                        self.imports[a.asname] = a.name
                    else:
                        self.imports[a.name.split(".")[0]] = a.name.split(".")[0]
            elif isinstance(st, ast.ImportFrom):
                base = st.module or ""
                if st.level == 1:
                    base = "bldfm." + base if base else "bldfm"
                elif st.level > 1:
                    err(st, "relative import beyond the package", rel)
                for a in st.names:
                    if a.name == "*":
                        err(st, "star import", rel)
                    self.imports[a.asname or a.name] = base + "." + a.name
            elif isinstance(st, ast.FunctionDef):
                if st.name in self.funcs:
                    err(st, "function defined twice", rel)
                self.funcs[st.name] = st
            elif isinstance(st, ast.ClassDef):
                self.classes[st.name] = st

    def dotted(self, node):
        """fully qualified dotted name of a Name/Attribute chain rooted at an imported or module-level name, or None"""
        parts = []
        n = node
        while isinstance(n, ast.Attribute):
            parts.append(n.attr)
            n = n.value
        if not isinstance(n, ast.Name):
            return None
        root = n.id
        parts.reverse()
        if root in self.imports:
            return ".".join([self.imports[root]] + parts)
        if root in self.funcs or root in self.classes or root in getattr(self, "globals_", {}) or root == "logger":
            return ".".join([self.modname, root] + parts)
        return None


def literal_value(node, where):
    """immutable literal -> val; tuples / floats / negative numbers are opaque; mutable displays are refused"""
    if isinstance(node, ast.Constant):
        v = node.value
        if v is None:
            return ("VNone",)
        if isinstance(v, bool):
            return ("VBool", v)
        if isinstance(v, int) and v >= 0:
            return ("VNat", v)
        if isinstance(v, str):
            return ("VStr", v)
        return ("VOpaque",)
    if isinstance(node, ast.Tuple) and all(isinstance(literal_value(e, where), tuple) for e in node.elts):
        return ("VOpaque",)
    if isinstance(node, ast.UnaryOp) and isinstance(node.op, (ast.USub, ast.UAdd)) and isinstance(node.operand, ast.Constant):
        return ("VOpaque",)
    err(node, "not an immutable literal (mutable default / module-level mutable state)", where)


def is_docstring(st):
    return isinstance(st, ast.Expr) and isinstance(st.value, ast.Constant) and isinstance(st.value.value, str)


def root_name(node):
    n = node
    while isinstance(n, (ast.Attribute, ast.Subscript, ast.Call)):
        n = n.func if isinstance(n, ast.Call) else n.value
    return n.id if isinstance(n, ast.Name) else None


# ------------------------------------------------------------------------------------------------ function translation


class Fn:
    """translation of one function body"""

    def __init__(self, tr, mod, fn, kind, where, raise_counter):
        self.tr = tr
        self.mod = mod
        self.fn = fn
        self.kind = kind  # "plain" | "init" | "method" | "wrapper" | "solver"
        self.where = where
        self.raise_counter = raise_counter
        self.tmp = 0
        a = fn.args
        if a.posonlyargs or a.kwonlyargs:
            err(fn, "positional-only / keyword-only arguments", where)
        if kind == "wrapper":
            if a.args or not a.vararg or not a.kwarg:
                err(fn, "the wrapper must take (*args, **kwargs) only", where)
            self.star = {a.vararg.arg, a.kwarg.arg}
        else:
            if a.vararg or a.kwarg:
                err(fn, "*args / **kwargs", where)
            self.star = set()
        self.params = [x.arg for x in a.args]
        nd = len(a.defaults)
        self.defaults = [None] * (len(self.params) - nd) + [literal_value(d, where) for d in a.defaults]
        self.globals_decl = set()
        for n in ast.walk(fn):
            if isinstance(n, ast.Global):
                for g in n.names:
                    if (mod.modname + "." + g) not in CELLS:
                        err(n, "`global` of a name that is not tracked state", where)
                    self.globals_decl.add(g)
            elif isinstance(n, ast.Nonlocal):
                err(n, "nonlocal", where)
            elif isinstance(n, (ast.FunctionDef, ast.AsyncFunctionDef, ast.ClassDef)) and n is not fn:
                err(n, "nested definition", where)
            elif isinstance(n, (ast.Lambda, ast.Yield, ast.YieldFrom, ast.Await, ast.NamedExpr)):
                err(n, "lambda / generator / walrus", where)
            elif isinstance(n, (ast.Import, ast.ImportFrom)):
                err(n, "import inside a function", where)
        # Python's scoping rule: a name stored anywhere in the function is local unless declared global
        self.locals = set(self.params) | self.star
        for n in ast.walk(fn):
            if isinstance(n, ast.Name) and isinstance(n.ctx, (ast.Store, ast.Del)) and n.id not in self.globals_decl:
                self.locals.add(n.id)
            elif isinstance(n, ast.ExceptHandler) and n.name:
                self.locals.add(n.name)
        if fn.decorator_list and kind != "decorated":
            err(fn, "decorator", where)
        # numerical (opaque) names: the solver's arguments other than footprint / analytic / cache, and every local all of
        # whose bindings are numerical (greatest fixpoint: start from "all locals", remove those with a tracked binding)
        self.numeric = set()
        if kind in ("solver", "decorated"):
            self.numeric = set(self.params) - SOLVER_TRACKED_ARGS

    def classify_locals(self):
        binds = {}
        for n in ast.walk(self.fn):
            if isinstance(n, ast.Assign) and len(n.targets) == 1 and isinstance(n.targets[0], ast.Name):
                binds.setdefault(n.targets[0].id, []).append(n.value)
            elif isinstance(n, ast.Name) and isinstance(n.ctx, ast.Store):
                binds.setdefault(n.id, [])
        cand = {x for x in self.locals if x not in self.params and x not in self.star and x not in self.globals_decl}
        self.numeric |= cand
        changed = True
        while changed:
            changed = False
            for x in sorted(cand & self.numeric):
                for rhs in binds.get(x, []):
                    if not self.binding_numeric(rhs):
                        self.numeric.discard(x)
                        changed = True
                        break

    def binding_numeric(self, rhs):
        if isinstance(rhs, ast.Call):
            k = self.call_kind(rhs)
            if k[0] == "new" or (k[0] == "fun" and k[1] == "get_fft_manager"):
                return False
            if k[0] in ("fun", "method", "transform", "kernel", "extern", "pure", "log"):
                return True
        return self._tx(rhs) is None

    # ---------------------------------------------------------------- names

    def resolve(self, node):
        """dotted name of a Name/Attribute chain whose root is NOT a local, else None"""
        r = root_name(node)
        if r is None or r in self.locals:
            return None
        if self.kind == "wrapper" and r in ("func", "_compiled"):
            return None
        return self.mod.dotted(node)

    def cell_of(self, node):
        d = self.resolve(node)
        return CELLS.get(d) if d else None

    def is_tracked_ref(self, node):
        """does this Name/Attribute chain denote tracked state or a tracked function?"""
        d = self.resolve(node)
        if d is None:
            if self.kind == "wrapper" and root_name(node) == "_compiled":
                return True
            return False
        if d.endswith(".logger") or ".logger." in d:
            return False
        return d.startswith(TRACKED_PREFIXES)

    def reads_tracked(self, node):
        for n in ast.walk(node):
            if isinstance(n, (ast.Name, ast.Attribute)) and self.is_tracked_ref(n):
                return n
            if isinstance(n, ast.Attribute) and n.attr == "num_threads":
                return n
        return None

    def fresh(self):
        self.tmp += 1
        return "$%d" % self.tmp

    # ---------------------------------------------------------------- classification of calls

    def call_kind(self, call):
        """('fun', name) | ('new',) | ('method', recv, m) | ('setnumba',) | ('getnumba',) | ('transform', inverse) |
        ('kernel', expr) | ('extern', name) | ('pure',) | ('log',) | ('retarget',) | ('jit',)"""
        f = call.func
        d = self.resolve(f)
        if d is not None:
            if d.startswith("bldfm.fft_manager.") and d.split(".")[-1] in FFT_FUNCS and d.count(".") == 2:
                return ("fun", d.split(".")[-1])
            if d == "bldfm.fft_manager.FFTManager":
                return ("new",)
            if d == "numba.set_num_threads":
                return ("setnumba",)
            if d == "numba.get_num_threads":
                return ("getnumba",)
            if d in TRANSFORMS:
                return ("transform", TRANSFORMS[d])
            if d == "types.FunctionType":
                return ("retarget",)
            if self.tr.solvermod is not None and self.mod is self.tr.solvermod and d == self.mod.modname + "." + str(self.tr.kernel_name):
                return ("fun", self.tr.kernel_name)
            if d.startswith(EXTERN_PREFIXES) or d in EXTERN_EXACT:
                return ("extern", d)
            if d.startswith(PURE_PREFIXES) or d in PURE_EXACT:
                return ("pure",)
            if d == self.mod.modname + ".logger" or d.startswith(self.mod.modname + ".logger."):
                return ("log",)
            err(call, "call of %s: not a translated, extern or whitelisted pure callee" % d, self.where)
        if isinstance(f, ast.Call):  # numba.jit(...)(target)
            if self.resolve(f.func) == "numba.jit":
                return ("jit",)
            err(call, "call of a call result", self.where)
        if isinstance(f, ast.Name):
            if f.id in self.locals:
                if self.kind == "wrapper":
                    return ("kernel", f)
                err(call, "call of a local name", self.where)
            if f.id in PURE_BUILTINS and f.id not in self.mod.funcs and f.id not in self.mod.imports:
                return ("extern", "open") if f.id == "open" else ("pure",)
            if f.id == "open":
                return ("extern", "open")
            err(call, "call of an unknown name", self.where)
        if isinstance(f, ast.Subscript):
            if self.kind == "wrapper" and isinstance(f.value, ast.Name) and f.value.id == "_compiled":
                return ("kernel", f)
            err(call, "call of a subscript", self.where)
        if isinstance(f, ast.Attribute):
            r = root_name(f)
            if r == "self" and self.kind in ("init", "method", "scan"):
                if isinstance(f.value, ast.Name):
                    if f.attr in TRANSLATED_METHODS[1:]:
                        return ("method", f.value, f.attr)
                    if f.attr in self.tr.scanned_methods:
                        return ("extern", "self." + f.attr)
                    err(call, "call of an unknown / state-carrying method of self", self.where)
                # self.attr.method(...): a method of an attribute object
                if f.attr in ("exists", "is_file", "with_suffix", "resolve") and self.kind == "scan":
                    return ("pure",)
                err(call, "method call on an attribute of self (hidden state?)", self.where)
            if r is not None and r in self.locals:
                if isinstance(f.value, ast.Name) and f.attr in TRANSLATED_METHODS[1:]:
                    return ("method", f.value, f.attr)
                return ("pure",)  # a method of a local value (array, str, the caller's cache object)
            if r is None:
                # method of a literal / expression result, e.g. "..".format, np.ones(..)[m].copy()
                base = f.value
                while isinstance(base, (ast.Attribute, ast.Subscript)):
                    base = base.value
                if isinstance(base, (ast.Constant, ast.JoinedStr)):
                    return ("pure",)
                if isinstance(base, ast.Call):
                    k = self.call_kind(base)
                    if k[0] == "pure":
                        return ("pure",)
                    err(call, "method of the result of a tracked call", self.where)
            err(call, "method call on a non-local object", self.where)
        err(call, "unsupported callee", self.where)

    def tracked_calls(self, node):
        """calls that are not pure/log inside node, in evaluation order; refuses conditional evaluation contexts"""
        out = []

        def walk(n, cond):
            if isinstance(n, ast.Call):
                k = self.call_kind(n)
                if k[0] == "jit":
                    for a in list(n.func.args) + [kw.value for kw in n.func.keywords] + list(n.args):
                        walk(a, cond)
                    return
                if k[0] == "kernel":
                    pass
                elif isinstance(n.func, ast.Attribute):
                    walk(n.func.value, cond)
                for a in n.args:
                    walk(a.value if isinstance(a, ast.Starred) else a, cond)
                for kw in n.keywords:
                    walk(kw.value, cond)
                if k[0] not in ("pure", "log", "getnumba", "retarget"):
                    if cond:
                        err(n, "tracked call under conditional evaluation (%s)" % cond, self.where)
                    out.append((n, k))
                return
            if isinstance(n, (ast.IfExp, ast.BoolOp)):
                parts = [n.test, n.body, n.orelse] if isinstance(n, ast.IfExp) else n.values
                walk(parts[0], cond)
                for p in parts[1:]:
                    walk(p, "conditional expression / and / or")
                return
            if isinstance(n, (ast.ListComp, ast.SetComp, ast.DictComp, ast.GeneratorExp)):
                for c in ast.iter_child_nodes(n):
                    walk(c, "comprehension")
                return
            for c in ast.iter_child_nodes(n):
                walk(c, cond)

        walk(node, None)
        return out

    # ---------------------------------------------------------------- expressions

    def tx(self, e):
        """tracked expression -> description expr; numerical expression -> ('EOpaqueE',) (it may not read tracked state)"""
        r = self._tx(e)
        if r is None:
            bad = self.reads_tracked(e)
            if bad is not None:
                err(e, "tracked state %s is read inside a numerical / untranslatable expression" % ast.unparse(bad), self.where)
            for c, k in self.tracked_calls(e):
                err(c, "tracked call inside a numerical expression", self.where)
            return ("EOpaqueE",)
        return r

    def _tx(self, e):
        if isinstance(e, ast.Constant):
            v = e.value
            if v is None:
                return ("EConst", ("VNone",))
            if isinstance(v, bool):
                return ("EConst", ("VBool", v))
            if isinstance(v, int) and v >= 0:
                return ("EConst", ("VNat", v))
            if isinstance(v, str):
                return ("EConst", ("VStr", v))
            return None
        if isinstance(e, ast.Name):
            if e.id in self.star or e.id in self.numeric:
                return None
            if e.id in self.locals:
                return ("EVar", e.id)
            if self.kind == "wrapper" and e.id == "func":
                return ("EFunc",)
            c = self.cell_of(e)
            if c:
                return ("EGlobal", c)
            if e.id in ("True", "False", "None"):
                return None
            d = self.resolve(e)
            if d and d.startswith(self.mod.modname + ".") and e.id in getattr(self.mod, "consts", {}):
                return ("EConst", self.mod.consts[e.id])
            return None
        if isinstance(e, ast.Attribute):
            c = self.cell_of(e)
            if c:
                return ("EGlobal", c)
            if e.attr == "num_threads":
                inner = self._tx(e.value)
                if inner is None or inner[0] not in ("EVar", "EGlobal"):
                    err(e, "`.num_threads` of something that is not a manager variable", self.where)
                return ("EThreadsOf", inner)
            if self.kind == "wrapper" and isinstance(e.value, ast.Name) and e.value.id == "func":
                if e.attr == "__name__":
                    return ("EConst", ("VStr", "<name>"))
                if e.attr == "__qualname__":
                    return ("EConst", ("VStr", "<qualname>"))
            return None
        if isinstance(e, ast.Compare):
            if len(e.ops) != 1:
                return None
            op, a, b = e.ops[0], e.left, e.comparators[0]
            if isinstance(op, (ast.Is, ast.IsNot)):
                if isinstance(b, ast.Constant) and b.value is None:
                    x = self._tx(a)
                    if x is None:
                        return None
                    r = ("EIsNone", x)
                    return r if isinstance(op, ast.Is) else ("ENot", r)
                return None
            if isinstance(op, (ast.In, ast.NotIn)):
                if self.kind == "wrapper" and isinstance(b, ast.Name) and b.id == "_compiled":
                    x = self._tx(a)
                    if x is None:
                        err(e, "membership test of _compiled with an untranslatable key", self.where)
                    r = ("EInCompiled", x)
                    return r if isinstance(op, ast.In) else ("ENot", r)
                return None
            ops = {ast.Gt: "CGt", ast.GtE: "CGe", ast.Lt: "CLt", ast.LtE: "CLe", ast.Eq: "CEq", ast.NotEq: "CNe"}
            if type(op) in ops:
                x, y = self._tx(a), self._tx(b)
                if x is None or y is None:
                    return None
                return ("ECmp", ops[type(op)], x, y)
            return None
        if isinstance(e, ast.UnaryOp) and isinstance(e.op, ast.Not):
            x = self._tx(e.operand)
            return None if x is None else ("ENot", x)
        if isinstance(e, ast.BoolOp):
            parts = [self._tx(v) for v in e.values]
            if all(p is None for p in parts):
                return None
            parts = [p if p is not None else self.tx(v) for p, v in zip(parts, e.values)]
            k = "EAnd" if isinstance(e.op, ast.And) else "EOr"
            r = parts[-1]
            for p in reversed(parts[:-1]):
                r = (k, p, r)
            return r
        if isinstance(e, ast.IfExp):
            c, a, b = self._tx(e.test), self._tx(e.body), self._tx(e.orelse)
            if c is None and a is None and b is None:
                return None
            return ("EIfExp", c or self.tx(e.test), a or self.tx(e.body), b or self.tx(e.orelse))
        if isinstance(e, ast.BinOp) and isinstance(e.op, ast.Add):
            x, y = self._tx(e.left), self._tx(e.right)
            if x is not None and y is not None:
                return ("EConcat", x, y)
            return None
        if isinstance(e, ast.Subscript):
            if self.kind == "wrapper" and isinstance(e.value, ast.Name) and e.value.id == "_compiled":
                k = self._tx(e.slice)
                if k is None:
                    err(e, "_compiled indexed by an untranslatable key", self.where)
                return ("ECompiledGet", k)
            return None
        if isinstance(e, ast.Call):
            k = self.call_kind(e)
            if k[0] == "getnumba":
                if e.args or e.keywords:
                    err(e, "get_num_threads with arguments", self.where)
                return ("EGlobal", "GNumba")
            if k[0] == "retarget":
                want = ["func.__code__", "func.__globals__", None, "func.__defaults__", "func.__closure__"]
                if e.keywords or len(e.args) != 5 or any(w is not None and ast.unparse(a) != w for a, w in zip(e.args, want)):
                    err(e, "types.FunctionType must copy func's code, globals, defaults and closure unchanged", self.where)
                return ("ERetarget", self.tx(e.args[2]))
            if k[0] == "jit":
                inner = e.func
                if inner.args or len(e.args) != 1 or e.keywords:
                    err(e, "numba.jit(options)(target) expected", self.where)
                opts = {"nopython": ("EConst", ("VBool", False)), "parallel": ("EConst", ("VBool", False)), "cache": ("EConst", ("VBool", False))}
                for kw in inner.keywords:
                    if kw.arg not in opts:
                        err(e, "numba.jit option %r" % kw.arg, self.where)
                    opts[kw.arg] = self.tx(kw.value)
                return ("EJit", opts["nopython"], opts["parallel"], opts["cache"], self.tx(e.args[0]))
            return None
        return None

    # ---------------------------------------------------------------- statements

    def call_args(self, call):
        args = []
        for a in call.args:
            if isinstance(a, ast.Starred):
                err(call, "*args in a tracked call", self.where)
            args.append((None, self.arg_expr(a)))
        for kw in call.keywords:
            if kw.arg is None:
                err(call, "**kwargs in a tracked call", self.where)
            args.append((kw.arg, self.arg_expr(kw.value)))
        return args

    def arg_expr(self, a):
        r = self._tx(a)
        if r is None:
            return self.tx(a)
        return r

    def emit_call(self, call, k, target):
        """one tracked call -> statements; target: local name receiving the value or None"""
        if k[0] == "fun":
            if k[1] == self.tr.kernel_name and self.mod is self.tr.solvermod:
                for a in list(call.args) + [kw.value for kw in call.keywords]:
                    self.tx(a.value if isinstance(a, ast.Starred) else a)
                return [("SCall", target, ("CFun", k[1]), [])]
            return [("SCall", target, ("CFun", k[1]), self.call_args(call))]
        if k[0] == "new":
            return [("SCall", target, ("CNew",), self.call_args(call))]
        if k[0] == "method":
            return [("SCall", target, ("CMethod", self.arg_expr(k[1]), k[2]), self.call_args(call))]
        if k[0] == "setnumba":
            if len(call.args) != 1 or call.keywords:
                err(call, "set_num_threads(n) expected", self.where)
            if target is not None:
                err(call, "value of set_num_threads used", self.where)
            return [("SSetGlobal", "GNumba", self.arg_expr(call.args[0]))]
        if k[0] == "transform":
            th = None
            if len(call.args) != 1:
                err(call, "transform with other than one positional argument", self.where)
            self.tx(call.args[0])
            for kw in call.keywords:
                if kw.arg == "threads":
                    th = self.arg_expr(kw.value)
                elif kw.arg == "norm":
                    self.tx(kw.value)
                else:
                    err(call, "transform option %r" % kw.arg, self.where)
            return [("STransform", target, k[1], th)]
        if k[0] == "kernel":
            f = call.func
            for a in call.args:
                if not (isinstance(a, ast.Starred) and isinstance(a.value, ast.Name) and a.value.id in self.star):
                    err(call, "the dispatcher must be called with (*args, **kwargs) unchanged", self.where)
            for kw in call.keywords:
                if kw.arg is not None or not (isinstance(kw.value, ast.Name) and kw.value.id in self.star):
                    err(call, "the dispatcher must be called with (*args, **kwargs) unchanged", self.where)
            if len(call.args) != 1 or len(call.keywords) != 1:
                err(call, "the dispatcher must be called with (*args, **kwargs) unchanged", self.where)
            return [("SKernel", target, self.arg_expr(f))]
        if k[0] == "extern":
            for a in list(call.args) + [kw.value for kw in call.keywords]:
                bad = self.reads_tracked(a)
                if bad is not None and not (isinstance(a, ast.Attribute) and root_name(a) == "self"):
                    err(call, "extern call reads tracked state", self.where)
            return [("SExtern", k[1])] + ([("SAssign", target, ("EOpaqueE",))] if target else [])
        err(call, "unexpected tracked call kind %r" % (k,), self.where)

    def hoist(self, value, target):
        """statements for evaluating `value` (an expression) and binding it to target (or discarding it)"""
        calls = self.tracked_calls(value)
        if not calls:
            e = self.tx(value)
            return [("SAssign", target, e)] if target else []
        if len(calls) == 1 and calls[0][0] is value:
            return self.emit_call(value, calls[0][1], target)
        out = []
        for c, k in calls:
            if k[0] == "jit":
                continue
            out += self.emit_call(c, k, None)
        if all(k[0] == "jit" for _, k in calls):
            e = self.tx(value)
            return [("SAssign", target, e)] if target else []
        # the value is a numerical function of tracked call results: opaque
        if target:
            out.append(("SAssign", target, ("EOpaqueE",)))
        return out

    def stored_names(self, node):
        return [n.id for n in ast.walk(node) if isinstance(n, ast.Name) and isinstance(n.ctx, ast.Store)]

    def numeric_only(self, ss):
        return all(s[0] == "SRaisePoint" or (s[0] == "SAssign" and s[2] == ("EOpaqueE",)) for s in ss)

    def taint(self, ss, node):
        """a dropped compound statement: its raise points in order, then every local it may bind becomes opaque"""
        out = [s for s in ss if s[0] == "SRaisePoint"]
        seen = []
        for n in self.stored_names(node):
            if n not in seen:
                seen.append(n)
        return out + [("SAssign", n, ("EOpaqueE",)) for n in seen]

    def block(self, body):
        out = []
        for st in body:
            out += self.stmt(st)
        return out

    def stmt(self, st):
        w = self.where
        if is_docstring(st) or isinstance(st, (ast.Pass, ast.Global)):
            return []
        if isinstance(st, ast.Expr):
            v = st.value
            if isinstance(v, ast.Call) and self.call_kind(v)[0] == "log":
                for c, k in self.tracked_calls(v):
                    err(c, "tracked call inside a logging call", w)
                return []
            return self.hoist(v, None)
        if isinstance(st, ast.Assign):
            if len(st.targets) != 1:
                err(st, "chained assignment", w)
            t = st.targets[0]
            if isinstance(t, ast.Name):
                if t.id in self.globals_decl:
                    c = CELLS[self.mod.modname + "." + t.id]
                    tmp = self.fresh()
                    pre = self.hoist(st.value, tmp)
                    if len(pre) == 1 and pre[0][0] == "SAssign":
                        return [("SSetGlobal", c, pre[0][2])]
                    return pre + [("SSetGlobal", c, ("EVar", tmp))]
                return self.hoist(st.value, t.id)
            if isinstance(t, (ast.Tuple, ast.List)):
                names = []
                for el in t.elts:
                    if not isinstance(el, ast.Name) or el.id in self.globals_decl:
                        err(st, "unpacking into something that is not a local name", w)
                    names.append(el.id)
                pre = self.hoist(st.value, None)
                return pre + [("SAssign", n, ("EOpaqueE",)) for n in names]
            if isinstance(t, ast.Attribute):
                c = self.cell_of(t)
                if c:
                    tmp = self.fresh()
                    pre = self.hoist(st.value, tmp)
                    if len(pre) == 1 and pre[0][0] == "SAssign":
                        return [("SSetGlobal", c, pre[0][2])]
                    return pre + [("SSetGlobal", c, ("EVar", tmp))]
                if self.is_tracked_ref(t):
                    err(st, "write to an attribute of tracked state that is not modelled", w)
                r = root_name(t)
                if isinstance(t.value, ast.Name) and t.value.id == "self":
                    if self.kind != "init":
                        err(st, "store into self outside __init__ (hidden state)", w)
                    if t.attr == "num_threads":
                        return [("SSetSelfThreads", self.arg_expr(st.value))]
                    if self.tracked_calls(st.value):
                        err(st, "tracked call stored into self", w)
                    self.tx(st.value)
                    return []
                if t.attr == "num_threads":
                    err(st, "the manager's thread count is re-written", w)
                if self.kind == "wrapper" and isinstance(t.value, ast.Name) and t.value.id in self.locals:
                    if t.attr in ("__qualname__", "__name__"):
                        return [("SSetFunAttr", t.value.id, t.attr.strip("_"), self.arg_expr(st.value))]
                    if t.attr in ("__module__", "__doc__") and ast.unparse(st.value) == "func." + t.attr:
                        return []
                    err(st, "attribute of the function copy", w)
                if r is not None and r in self.locals and r != "self":
                    if self.tracked_calls(st.value):
                        err(st, "tracked call stored into an attribute", w)
                    self.tx(st.value)
                    return []
                err(st, "store into an attribute of a non-local object", w)
            if isinstance(t, ast.Subscript):
                if self.kind == "wrapper" and isinstance(t.value, ast.Name) and t.value.id == "_compiled":
                    k = self._tx(t.slice)
                    if k is None:
                        err(st, "_compiled indexed by an untranslatable key", w)
                    return [("SCompiledSet", k, self.arg_expr(st.value))]
                r = root_name(t)
                if r is not None and r in self.locals and r != "self":
                    pre = self.hoist(st.value, None)
                    self.tx(t.slice) if not isinstance(t.slice, (ast.Slice, ast.Tuple)) else None
                    return pre
                err(st, "item store into a non-local object (hidden state)", w)
            err(st, "assignment target", w)
        if isinstance(st, ast.AugAssign):
            if isinstance(st.target, ast.Name) and st.target.id in self.locals:
                return self.hoist(st.value, None) + [("SAssign", st.target.id, ("EOpaqueE",))]
            r = root_name(st.target)
            if isinstance(st.target, ast.Subscript) and r in self.locals and r != "self":
                return self.hoist(st.value, None)
            err(st, "augmented assignment to a non-local", w)
        if isinstance(st, ast.AnnAssign):
            err(st, "annotated assignment", w)
        if isinstance(st, ast.Return):
            if st.value is None:
                return [("SReturn", ("EConst", ("VNone",)))]
            calls = self.tracked_calls(st.value)
            if calls and not all(k[0] == "jit" for _, k in calls):
                tmp = self.fresh()
                pre = self.hoist(st.value, tmp)
                return pre + [("SReturn", ("EVar", tmp))]
            return [("SReturn", self.tx(st.value))]
        if isinstance(st, ast.Raise):
            for x in (st.exc, st.cause):
                if x is not None:
                    if self.tracked_calls(x):
                        err(st, "tracked call inside raise", w)
            i = self.raise_counter[0]
            self.raise_counter[0] += 1
            return [("SRaisePoint", i)]
        if isinstance(st, ast.If):
            if self.tracked_calls(st.test):
                err(st, "tracked call inside a condition", w)
            c = self._tx(st.test)
            a, b = self.block(st.body), self.block(st.orelse)
            if c is None:
                self.tx(st.test)
                if self.kind == "scan":
                    return [s for s in a + b if s[0] in ("SExtern", "SRaisePoint")]
                if self.numeric_only(a) and self.numeric_only(b):
                    return self.taint(a + b, st)
                # a state-relevant statement under a condition on numerical values: the interpreter has no value for it
                # when it is reached (the bridge lemma then fails); unreachable ones (the cache block under cache=None) pass
                return [("SIf", ("EOpaqueE",), a, b)]
            return [("SIf", c, a, b)]
        if isinstance(st, (ast.For, ast.While, ast.With, ast.Try)):
            parts = []
            if isinstance(st, ast.For):
                self.tx(st.iter)
                heads = [st.iter]
            elif isinstance(st, ast.While):
                self.tx(st.test)
                heads = [st.test]
            elif isinstance(st, ast.With):
                heads = [i.context_expr for i in st.items]
            else:
                heads = []
            for h in heads:
                if [1 for c, k in self.tracked_calls(h) if k[0] != "extern"]:
                    err(st, "tracked call in the head of a compound statement", w)
            bodies = [st.body] + [getattr(st, "orelse", [])] + [getattr(st, "finalbody", [])] + [h.body for h in getattr(st, "handlers", [])]
            for b in bodies:
                parts += self.block(b)
            if self.kind == "scan":
                return [s for s in parts if s[0] in ("SExtern", "SRaisePoint")]
            if self.numeric_only(parts):
                return self.taint(parts, st)
            err(st, "state-relevant statement inside a loop / with / try", w)
        err(st, "statement kind %s" % type(st).__name__, w)

    # ---------------------------------------------------------------- whole function

    def translate(self):
        self.classify_locals()
        body = self.block(self.fn.body)
        body = prune(body)
        return {"params": list(zip(self.params, self.defaults)), "varargs": self.kind == "wrapper", "body": body}


def reads_of_expr(e, acc):
    if not isinstance(e, tuple):
        return
    if e[0] == "EVar":
        acc.add(e[1])
    for x in e[1:]:
        if isinstance(x, tuple):
            reads_of_expr(x, acc)


def reads_of(ss, acc):
    for s in ss:
        k = s[0]
        if k == "SIf":
            reads_of_expr(s[1], acc)
            reads_of(s[2], acc)
            reads_of(s[3], acc)
        elif k == "SCall":
            if s[2][0] == "CMethod":
                reads_of_expr(s[2][1], acc)
            for _, e in s[3]:
                reads_of_expr(e, acc)
        elif k == "SSetFunAttr":
            acc.add(s[1])
            reads_of_expr(s[3], acc)
        elif k == "STransform":
            if s[3] is not None:
                reads_of_expr(s[3], acc)
        else:
            for x in s[1:]:
                if isinstance(x, tuple):
                    reads_of_expr(x, acc)


def prune(ss):
    """drop assignments to locals no tracked expression of the function reads, and the targets of calls nobody reads"""
    acc = set()
    reads_of(ss, acc)

    def go(ss):
        out = []
        for s in ss:
            if s[0] == "SAssign" and s[1] not in acc:
                continue
            if s[0] == "SIf":
                a, b = go(s[2]), go(s[3])
                if a or b:
                    out.append(("SIf", s[1], a, b))
            elif s[0] in ("SCall", "STransform", "SKernel") and s[1] is not None and s[1] not in acc:
                out.append((s[0], None) + tuple(s[2:]))
            else:
                out.append(s)
        return out

    prev = None
    cur = ss
    while prev != cur:
        prev = cur
        acc = set()
        reads_of(cur, acc)
        cur = go(cur)
    return cur


# ------------------------------------------------------------------------------------------------ the translator


class Translator:
    def __init__(self, src):
        self.src = src
        self.errors = []
        self.kernel_name = None
        self.solvermod = None
        self.scanned_methods = {}
        self.raise_counter = [0]

    def part(self, name, f):
        try:
            return f()
        except TranslateError as e:
            self.errors.append("%s: %s" % (name, e))
        except RecursionError as e:
            self.errors.append("%s: RecursionError" % name)
        except Exception as e:  # fail closed on anything unforeseen
            self.errors.append("%s: %s: %s" % (name, type(e).__name__, e))
        return None

    # ---- config.py
    def config(self):
        m = Module(self.src, "config.py", "bldfm.config")
        out = []
        for st in m.tree.body:
            if is_docstring(st):
                continue
            if isinstance(st, ast.Assign) and len(st.targets) == 1 and isinstance(st.targets[0], ast.Name):
                out.append((st.targets[0].id, literal_value(st.value, "config.py")))
            else:
                err(st, "config.py: statement other than NAME = literal", "config.py")
        names = [n for n, _ in out]
        if len(set(names)) != len(names):
            raise TranslateError("config.py: a constant is assigned twice")
        return out

    # ---- fft_manager.py
    def fft_manager(self):
        m = Module(self.src, "fft_manager.py", "bldfm.fft_manager")
        self.fftmod = m
        m.globals_ = {}
        m.consts = {}
        where = "fft_manager.py"
        for st in m.tree.body:
            if is_docstring(st) or isinstance(st, (ast.Import, ast.ImportFrom, ast.FunctionDef)):
                continue
            if isinstance(st, ast.ClassDef):
                if st.name != "FFTManager":
                    err(st, "class other than FFTManager", where)
                continue
            if isinstance(st, ast.Assign) and len(st.targets) == 1 and isinstance(st.targets[0], ast.Name):
                n = st.targets[0].id
                if n == "logger":
                    continue
                if n in m.globals_:
                    err(st, "module-level name assigned twice", where)
                m.globals_[n] = literal_value(st.value, where)
                continue
            err(st, "module-level statement", where)
        if "_fft_manager" not in m.globals_:
            raise TranslateError("fft_manager.py: no module-level _fft_manager")
        for n in m.globals_:
            if n != "_fft_manager":
                raise TranslateError("fft_manager.py: module-level state %r besides _fft_manager" % n)
        if "FFTManager" not in m.classes:
            raise TranslateError("fft_manager.py: class FFTManager missing")
        cls = m.classes["FFTManager"]
        if cls.bases or cls.keywords or cls.decorator_list:
            err(cls, "FFTManager with bases / metaclass / decorators", where)
        meths = {}
        for st in cls.body:
            if is_docstring(st):
                continue
            if not isinstance(st, ast.FunctionDef):
                err(st, "class-level statement in FFTManager (shared state?)", where)
            if st.name in meths:
                err(st, "method defined twice", where)
            meths[st.name] = st
        for n in TRANSLATED_METHODS:
            if n not in meths:
                raise TranslateError("fft_manager.py: FFTManager.%s missing" % n)
        for n in ("__new__", "__getattr__", "__getattribute__", "__setattr__", "__call__", "__del__"):
            if n in meths:
                raise TranslateError("fft_manager.py: FFTManager.%s defined" % n)
        # every other method: scanned.  It may call externs, pure callees and other scanned methods; it may not touch tracked
        # state and may not store into self.
        others = [n for n in meths if n not in TRANSLATED_METHODS]
        self.scanned_methods = {n: None for n in others}
        scans = {}
        for n in others:
            f = Fn(self, m, meths[n], "scan", "fft_manager.py:FFTManager." + n, self.raise_counter)
            bad = f.reads_tracked(meths[n])
            if bad is not None:
                err(bad, "FFTManager.%s touches tracked state" % n, where)
            body = f.block(meths[n].body)
            scans[n] = [s for s in body if s[0] == "SExtern"]
            left = [s for s in body if s[0] not in ("SExtern", "SAssign", "SReturn", "SRaisePoint")]
            if left:
                raise TranslateError("fft_manager.py: FFTManager.%s is not stateless: %r" % (n, left[:2]))
        prog = []
        for n in TRANSLATED_METHODS:
            f = Fn(self, m, meths[n], "init" if n == "__init__" else "method", "fft_manager.py:FFTManager." + n, self.raise_counter)
            if not f.params or f.params[0] != "self":
                err(meths[n], "first argument must be self", where)
            prog.append(("FFTManager." + n, f.translate()))
        for n in FFT_FUNCS:
            if n not in m.funcs:
                raise TranslateError("fft_manager.py: function %s missing" % n)
            f = Fn(self, m, m.funcs[n], "plain", "fft_manager.py:" + n, self.raise_counter)
            prog.append((n, f.translate()))
        for n in m.funcs:
            if n not in FFT_FUNCS:
                # an extra module-level function: it may not touch tracked state (it is never called by translated code:
                # calls of unknown functions fail closed)
                f = Fn(self, m, m.funcs[n], "plain", "fft_manager.py:" + n, self.raise_counter)
                bad = f.reads_tracked(m.funcs[n])
                if bad is not None:
                    err(bad, "extra function %s touches tracked state" % n, where)
        return prog, list(m.globals_.items()), scans

    # ---- utils.parallelize
    def parallelize(self):
        m = Module(self.src, "utils.py", "bldfm.utils")
        m.globals_ = {}
        where = "utils.py:parallelize"
        if "parallelize" not in m.funcs:
            raise TranslateError("utils.py: parallelize missing")
        fn = m.funcs["parallelize"]
        a = fn.args
        if [x.arg for x in a.args] != ["func"] or a.vararg or a.kwarg or a.kwonlyargs or a.defaults or fn.decorator_list:
            err(fn, "parallelize(func) expected", where)
        body = [st for st in fn.body if not is_docstring(st)]
        if len(body) != 3:
            err(fn, "parallelize must consist of `_compiled = {}`, the wrapper and `return wrapper`", where)
        s0, s1, s2 = body
        if not (isinstance(s0, ast.Assign) and len(s0.targets) == 1 and isinstance(s0.targets[0], ast.Name) and s0.targets[0].id == "_compiled"
                and isinstance(s0.value, ast.Dict) and not s0.value.keys):
            err(s0, "`_compiled = {}` expected", where)
        if not isinstance(s1, ast.FunctionDef):
            err(s1, "wrapper definition expected", where)
        if not (isinstance(s2, ast.Return) and isinstance(s2.value, ast.Name) and s2.value.id == s1.name):
            err(s2, "`return wrapper` expected", where)
        for n in ast.walk(s1):
            if isinstance(n, ast.Name) and n.id == "_compiled" and isinstance(n.ctx, ast.Store):
                err(n, "_compiled re-bound inside the wrapper", where)
        f = Fn(self, m, s1, "wrapper", where, self.raise_counter)
        if "func" in f.locals or "_compiled" in f.locals:
            err(s1, "func / _compiled shadowed in the wrapper", where)
        return f.translate()

    # ---- solver.py
    def solver_module(self):
        m = Module(self.src, "solver.py", "bldfm.solver")
        m.globals_ = {}
        self.solvermod = m
        where = "solver.py"
        for st in m.tree.body:
            if is_docstring(st) or isinstance(st, (ast.Import, ast.ImportFrom, ast.FunctionDef)):
                continue
            if isinstance(st, ast.Assign) and len(st.targets) == 1 and isinstance(st.targets[0], ast.Name) and st.targets[0].id == "logger":
                continue
            if isinstance(st, ast.Expr) and isinstance(st.value, ast.Call) and ast.unparse(st.value.func).startswith("logger."):
                continue
            err(st, "module-level statement (state kept between solves?)", where)
        deco = {}
        for n, fn in m.funcs.items():
            ds = [m.dotted(d) if isinstance(d, (ast.Name, ast.Attribute)) else ast.unparse(d) for d in fn.decorator_list]
            deco[n] = ds
        kernels = [n for n, ds in deco.items() if ds == ["bldfm.utils.parallelize"]]
        for n, ds in deco.items():
            if ds and ds != ["bldfm.utils.parallelize"]:
                raise TranslateError("solver.py: decorator %r on %s" % (ds, n))
        if kernels != ["ivp_solver"]:
            raise TranslateError("solver.py: functions decorated with parallelize: %r (expected ivp_solver only)" % kernels)
        self.kernel_name = "ivp_solver"
        if "steady_state_transport_solver" not in m.funcs:
            raise TranslateError("solver.py: steady_state_transport_solver missing")
        for n in m.funcs:
            if n not in ("steady_state_transport_solver", "ivp_solver"):
                raise TranslateError("solver.py: extra module-level function %s" % n)
        # the kernel body is numba code: it may not mention tracked state
        kf = m.funcs["ivp_solver"]
        probe = Fn(self, m, kf, "decorated", "solver.py:ivp_solver", [0])
        for st in kf.body:
            bad = probe.reads_tracked(st)
            if bad is not None:
                err(bad, "the kernel reads tracked state", where)
        for n in [x for st in kf.body for x in ast.walk(st)]:
            if isinstance(n, ast.Call):
                k = probe.call_kind(n)
                if k[0] != "pure":
                    err(n, "the kernel calls something that is not numerical", where)
        return m

    def solver(self, m):
        fn = m.funcs["steady_state_transport_solver"]
        rc = [0]
        f = Fn(self, m, fn, "solver", "solver.py:steady_state_transport_solver", rc)
        d = f.translate()
        self.n_raise = rc[0]
        return d


def cfdef(d):
    ps = "[" + "; ".join("(%s, %s)" % (cstr(n), "None" if v is None else "Some %s" % cval(v)) for n, v in d["params"]) + "]"
    return "mkF %s %s\n    %s" % (ps, "true" if d["varargs"] else "false", cstmts(d["body"], 4))


def count_terms(ss):
    n = 0
    for s in ss:
        n += 1
        if s[0] == "SIf":
            n += count_terms(s[2]) + count_terms(s[3])
    return n


def translate(src):
    """src: the directory that contains the package bldfm.  Returns the text of GenRuntime.v; raises TranslateError naming
    every part that failed closed."""
    global N_TERMS
    t = Translator(src)
    cfg = t.part("config.py", t.config)
    fm = t.part("fft_manager.py", t.fft_manager)
    par = t.part("utils.parallelize", t.parallelize)
    sm = t.part("solver.py(module)", t.solver_module)
    sol = t.part("solver.py(solver)", lambda: t.solver(sm)) if sm is not None else None
    if t.errors:
        raise TranslateError("; ".join(t.errors))
    prog, fft_globals, scans = fm
    prog = prog + [("ivp_solver", par), ("steady_state_transport_solver", sol)]
    N_TERMS = sum(count_terms(d["body"]) for _, d in prog)
    out = ["(* GENERATED by harness/py2coq_runtime.py from the current source of bldfm - do not edit *)",
           "From Coq Require Import List String.",
           "From BL Require Import Model.RuntimeDesc.",
           "Import ListNotations.",
           "Open Scope string_scope.",
           "",
           "Definition gen_config_globals : list (string * val) :=",
           "  [" + "; ".join("(%s, %s)" % (cstr(n), cval(v)) for n, v in cfg) + "].",
           "",
           "Definition gen_fft_globals : list (string * val) :=",
           "  [" + "; ".join("(%s, %s)" % (cstr(n), cval(v)) for n, v in fft_globals) + "].",
           "",
           "(* `_compiled = {}` in parallelize: one dict per decorated function, created at decoration time *)",
           "Definition gen_compiled_init : list (val * kinfo) := [].",
           "",
           "(* externs reached from the methods of FFTManager that are not translated (scanned: no tracked state, no store into self) *)",
           "Definition gen_scanned_methods : list (string * list string) :=",
           "  [" + "; ".join("(%s, [%s])" % (cstr(n), "; ".join(cstr(s[1]) for s in ss)) for n, ss in scans.items()) + "].",
           "",
           "Definition gen_n_raise_points : nat := %d." % t.n_raise,
           ""]
    for name, d in prog:
        ident = "gen_fn_" + name.replace(".", "_").replace("__", "")
        out.append("Definition %s : fdef :=\n  %s." % (ident, cfdef(d)))
        out.append("")
    out.append("Definition gen_program : program :=\n  [" + ";\n   ".join(
        "(%s, %s)" % (cstr(name), "gen_fn_" + name.replace(".", "_").replace("__", "")) for name, _ in prog) + "].")
    out.append("")
    return "\n".join(out)


def run(ctx):
    """translate the current source, compile GenRuntime.v, re-prove coq/Bridge/RuntimeBridge.v against it (one obligation
    per lemma), and check that every bridge lemma is closed under the global context"""
    import re

    import core

    try:
        text = translate(core.SRC)
    except TranslateError as e:
        ctx.obligation("gen:GenRuntime.v", False, "runtime translator failed closed: %s" % e)
        return False
    ctx.cov["runtime_terms_translated"] = N_TERMS
    if not core.run_bridge(ctx, {"GenRuntime.v": text}, ["RuntimeBridge.v"]):
        return False
    src = core.strip_coq_comments(open(os.path.join(core.COQ, "Bridge", "RuntimeBridge.v")).read())
    names = re.findall(r"^\s*(?:Lemma|Theorem)\s+([\w']+)", src, re.M)
    ax = "From Gen Require Import RuntimeBridge.\n" + "".join(
        'Goal True. idtac "THEOREM %s". Abort. Print Assumptions %s.\n' % (n, n) for n in names)
    rc, out, err_, dt = ctx.coqc(ctx.write("RuntimeBridgeAx.v", ax))
    got = core.parse_assumptions(out + "\n" + err_)
    bad = ["%s: %s" % (n, sorted(got[n]) if isinstance(got.get(n), set) else got.get(n, "missing"))
           for n in names if got.get(n) != set()]
    ctx.obligation("closed:RuntimeBridge", rc == 0 and not bad,
                   "" if rc == 0 and not bad else "bridge lemmas not closed under the global context: %s %s" % (
                       "; ".join(bad), (out + err_)[-600:] if rc else ""))
    return rc == 0 and not bad


if __name__ == "__main__":
    import sys

    src = sys.argv[1] if len(sys.argv) > 1 else "/repo/src"
    try:
        sys.stdout.write(translate(src))
    except TranslateError as e:
        sys.stderr.write("TranslateError: %s\n" % e)
        sys.exit(1)
