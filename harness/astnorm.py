"""Semantics-preserving AST normalisations applied BEFORE a translator or a statement skeleton reads a module, so that
two spellings of the same computation are one text.  Each rule is an equality of Python programs for ALL inputs (it is
not a heuristic); a rule whose side condition cannot be established is not applied (the source is then read as it is,
and the translators fail closed as before).

  N1  dict(k1=e1, ..., kn=en)  ->  {'k1': e1, ..., 'kn': en}
      (no positional argument, no `**`; evaluation order of the ei and the insertion order are the same; needs the name
      `dict` to denote the builtin: no binding of `dict` anywhere in the module - assignment, def, class, import,
      parameter, global/nonlocal, loop / with / except target, comprehension variable, walrus)

  N2  forward substitution of NEW single-use temporaries (a right-hand side split into named parts)

          t = e                       # e pure
          [x = e' ...]                # only simple assignments of pure expressions to plain names that e does not read
          y = E[t]  /  return E[t]    # E pure, t read exactly once in the whole function

      ->  y = E[e]  /  return E[e]

      for a local t that is NOT one of the function's locals at the verified baseline (harness/known_locals.json), is
      bound exactly once (by this plain assignment), read exactly once, not a parameter / global / nonlocal, and not
      read inside a nested scope (lambda, comprehension, def).  `pure` = built from names, literals, attribute loads,
      subscript loads, arithmetic / comparison / boolean operators, tuples / lists, conditional expressions and calls of
      the whitelisted numpy / math / builtin functions below (with `np` = numpy, `math` = math established from the
      module's imports, builtins not re-bound).  On the baseline tree the rule does nothing (no unknown local exists),
      so slices and skeletons that address locals by name are unaffected.  What is NOT preserved: when two pure
      expressions of one straight-line block both raise, which of them raises first.

  N3  inlining of NEW pure helper functions (an expression extracted into a function)

          def f(p1, ..., pn):            # module level, no decorator, plain positional parameters without defaults,
              [docstring]                 # body = one `return <pure expression over p1..pn and module-level names>`
              return B[p1..pn]
          ... f(a1, ..., an) ...         # positional call with pure arguments, inside a function known at the baseline

      ->  ... B[a1..an] ...             and the definition of f is dropped from the module when no reference is left

      for a name f that is not a definition of the module at the baseline and is bound exactly once in the module (so it
      shadows nothing); no free name of B may be a local of the calling function.  Arguments are pure, so evaluating an
      argument once (call) or once per occurrence of its parameter (substitution) gives the same values.
      Statement form: a helper whose body is a chain `if c: return e ... return e'` (every path ends in a return of a pure
      expression, pure tests, nothing else) called as the whole right-hand side of `x = f(a1, ..., an)` becomes the
      if / elif / else statement assigning x.

  N4  alpha-renaming of locals back to the baseline's names

      When the set of names bound in a function differs from the baseline's by as many NEW names as VANISHED ones, the
      new names are renamed to the vanished ones (paired in the order of their first binding).  Every renaming of a
      local to a name that occurs nowhere in the function (neither bound nor read) is semantics-preserving, whatever the
      pairing; side conditions: neither name is a parameter, global / nonlocal, or touched by a nested scope, and the
      function calls none of locals / vars / eval / exec / globals / dir.  A wrong pairing cannot be accepted
      silently: the renamed function still has to bridge.
"""
import ast
import copy
import json
import os


def binds(tree, name):
    """True when the module binds `name` anywhere (conservative: any scope)"""
    for n in ast.walk(tree):
        if isinstance(n, ast.Name) and n.id == name and isinstance(n.ctx, (ast.Store, ast.Del)):
            return True
        if isinstance(n, (ast.FunctionDef, ast.AsyncFunctionDef, ast.ClassDef)) and n.name == name:
            return True
        if isinstance(n, ast.arg) and n.arg == name:
            return True
        if isinstance(n, ast.alias) and (n.asname or n.name.split(".")[0]) == name:
            return True
        if isinstance(n, ast.alias) and n.name == "*":
            return True  # a star import may bind anything
        if isinstance(n, (ast.Global, ast.Nonlocal)) and name in n.names:
            return True
        if isinstance(n, ast.ExceptHandler) and n.name == name:
            return True
        if isinstance(n, (ast.MatchAs, ast.MatchStar)) and getattr(n, "name", None) == name:
            return True
        if isinstance(n, ast.MatchMapping) and n.rest == name:
            return True
    return False


class _DictCall(ast.NodeTransformer):
    def visit_Call(self, node):
        self.generic_visit(node)
        if (isinstance(node.func, ast.Name) and node.func.id == "dict" and not node.args and node.keywords
                and all(k.arg is not None for k in node.keywords)):
            new = ast.Dict(keys=[ast.Constant(value=k.arg) for k in node.keywords], values=[k.value for k in node.keywords])
            return ast.copy_location(new, node)
        return node


def normalize(tree):
    """in place; returns the tree"""
    if not binds(tree, "dict"):
        _DictCall().visit(tree)
        ast.fix_missing_locations(tree)
    return tree


def parse(src):
    return normalize(ast.parse(src))


# ------------------------------------------------------------------------------------------------ N2

PURE_NP = {"sqrt", "exp", "log", "sin", "cos", "tan", "arctan", "arctan2", "abs", "where", "power", "deg2rad", "rad2deg",
           "radians", "degrees", "real", "shape", "ndim", "diff", "cumsum", "sum", "argsort", "square", "log10", "sinh",
           "cosh", "tanh", "arcsin", "arccos", "hypot", "maximum", "minimum", "sign", "isnan", "isfinite", "logical_and",
           "logical_or", "logical_not", "asarray", "array", "zeros", "ones", "zeros_like", "ones_like", "linspace", "arange",
           "meshgrid", "squeeze", "ravel", "float64", "complex128"}
PURE_MATH = {"sqrt", "exp", "log", "sin", "cos", "tan", "atan", "atan2", "radians", "degrees", "fabs", "hypot", "floor", "ceil"}
PURE_BUILTINS = {"abs", "max", "min", "float", "int", "len", "tuple", "bool", "complex", "round", "list", "range", "sorted", "sum"}
KNOWN_LOCALS = os.path.join(os.path.dirname(os.path.abspath(__file__)), "known_locals.json")


def _import_map(tree):
    """{local module alias: module} for top-level `import m [as a]`; None for a name that is bound in any other way too"""
    out = {}
    for st in tree.body:
        if isinstance(st, ast.Import):
            for al in st.names:
                out[al.asname or al.name.split(".")[0]] = al.name if al.asname else al.name.split(".")[0]
    for alias in list(out):
        n = 0
        for node in ast.walk(tree):
            if isinstance(node, ast.alias) and (node.asname or node.name.split(".")[0]) == alias:
                n += 1
        others = _binds_other_than_import(tree, alias)
        if n != 1 or others:
            del out[alias]
    return out


def _binds_other_than_import(tree, name):
    for n in ast.walk(tree):
        if isinstance(n, ast.Name) and n.id == name and isinstance(n.ctx, (ast.Store, ast.Del)):
            return True
        if isinstance(n, (ast.FunctionDef, ast.AsyncFunctionDef, ast.ClassDef)) and n.name == name:
            return True
        if isinstance(n, ast.arg) and n.arg == name:
            return True
        if isinstance(n, ast.alias) and n.name == "*":
            return True
        if isinstance(n, (ast.Global, ast.Nonlocal)) and name in n.names:
            return True
        if isinstance(n, ast.ExceptHandler) and n.name == name:
            return True
    return False


class _Purity:
    def __init__(self, tree):
        imp = _import_map(tree)
        self.np = {a for a, m in imp.items() if m == "numpy"}
        self.math = {a for a, m in imp.items() if m == "math"}
        self.builtins = {b for b in PURE_BUILTINS if not binds(tree, b)}

    def call_ok(self, f):
        if isinstance(f, ast.Name):
            return f.id in self.builtins
        if isinstance(f, ast.Attribute) and isinstance(f.value, ast.Name):
            return (f.value.id in self.np and f.attr in PURE_NP) or (f.value.id in self.math and f.attr in PURE_MATH)
        return False

    def pure(self, e):
        if isinstance(e, (ast.Constant, ast.Name)):
            return not isinstance(e, ast.Name) or isinstance(e.ctx, ast.Load)
        if isinstance(e, ast.Attribute):
            return isinstance(e.ctx, ast.Load) and self.pure(e.value)
        if isinstance(e, ast.Subscript):
            return isinstance(e.ctx, ast.Load) and self.pure(e.value) and self.pure(e.slice)
        if isinstance(e, ast.Slice):
            return all(x is None or self.pure(x) for x in (e.lower, e.upper, e.step))
        if isinstance(e, ast.BinOp):
            return self.pure(e.left) and self.pure(e.right)
        if isinstance(e, ast.UnaryOp):
            return self.pure(e.operand)
        if isinstance(e, ast.BoolOp):
            return all(self.pure(v) for v in e.values)
        if isinstance(e, ast.Compare):
            return self.pure(e.left) and all(self.pure(c) for c in e.comparators)
        if isinstance(e, ast.IfExp):
            return self.pure(e.test) and self.pure(e.body) and self.pure(e.orelse)
        if isinstance(e, (ast.Tuple, ast.List)):
            return isinstance(e.ctx, ast.Load) and all(self.pure(x) for x in e.elts)
        if isinstance(e, ast.Call):
            return (self.call_ok(e.func) and all(not isinstance(a, ast.Starred) and self.pure(a) for a in e.args)
                    and all(k.arg is not None and self.pure(k.value) for k in e.keywords))
        return False


def _loads(node):
    return [n for n in ast.walk(node) if isinstance(n, ast.Name) and isinstance(n.ctx, ast.Load)]


def _function_facts(fn):
    """binding statements per name, load counts, names touched inside nested scopes / unusual binders"""
    stores, loads, tainted = {}, {}, set()
    params = {a.arg for a in fn.args.posonlyargs + fn.args.args + fn.args.kwonlyargs}
    for a in (fn.args.vararg, fn.args.kwarg):
        if a is not None:
            params.add(a.arg)

    def walk(node, nested):
        for ch in ast.iter_child_nodes(node):
            inner = nested or isinstance(ch, (ast.Lambda, ast.FunctionDef, ast.AsyncFunctionDef, ast.ClassDef, ast.ListComp,
                                               ast.SetComp, ast.DictComp, ast.GeneratorExp))
            if isinstance(ch, ast.Name):
                if nested:
                    tainted.add(ch.id)
                if isinstance(ch.ctx, ast.Load):
                    loads[ch.id] = loads.get(ch.id, 0) + 1
                else:
                    stores[ch.id] = stores.get(ch.id, 0) + 1
            elif isinstance(ch, (ast.Global, ast.Nonlocal)):
                tainted.update(ch.names)
            elif isinstance(ch, ast.ExceptHandler) and ch.name:
                tainted.add(ch.name)
            elif isinstance(ch, ast.alias):
                tainted.add(ch.asname or ch.name.split(".")[0])
            elif isinstance(ch, (ast.FunctionDef, ast.AsyncFunctionDef, ast.ClassDef)):
                tainted.add(ch.name)
            elif isinstance(ch, ast.arg):
                tainted.add(ch.arg)
            walk(ch, inner)
    for st in fn.body:
        walk(ast.Module(body=[st], type_ignores=[]), False)
    return stores, loads, tainted | params


def inline_new_temporaries(tree, fn, known):
    """N2 on one function (in place).  known: the locals of the function at the baseline; returns the inlined names"""
    pu = _Purity(tree)
    done = []
    for _ in range(40):
        stores, loads, tainted = _function_facts(fn)
        changed = False
        for block in [n for n in ast.walk(fn)]:
            for field in ("body", "orelse", "finalbody"):
                L = getattr(block, field, None)
                if not isinstance(L, list) or (block is not fn and isinstance(block, (ast.FunctionDef, ast.AsyncFunctionDef, ast.ClassDef, ast.Lambda))):
                    continue
                for i, d in enumerate(L):
                    if not (isinstance(d, ast.Assign) and len(d.targets) == 1 and isinstance(d.targets[0], ast.Name)):
                        continue
                    t = d.targets[0].id
                    if t in known or t in tainted or stores.get(t) != 1 or loads.get(t) != 1 or not pu.pure(d.value):
                        continue
                    reads = {n.id for n in _loads(d.value)}
                    if t in reads:
                        continue
                    j = i + 1
                    ok = False
                    while j < len(L):
                        s = L[j]
                        uses = isinstance(s, (ast.Assign, ast.Return)) and any(n.id == t for n in _loads(s))
                        if uses:
                            val = s.value
                            tg_ok = isinstance(s, ast.Return) or (len(s.targets) == 1 and (
                                isinstance(s.targets[0], ast.Name)
                                or (isinstance(s.targets[0], ast.Tuple) and all(isinstance(x, ast.Name) for x in s.targets[0].elts))
                                or (isinstance(s.targets[0], ast.Subscript) and not any(n.id == t for n in _loads(s.targets[0])))))
                            ok = val is not None and tg_ok and pu.pure(val) and sum(1 for n in _loads(val) if n.id == t) == 1
                            break
                        if not (isinstance(s, ast.Assign) and len(s.targets) == 1 and isinstance(s.targets[0], ast.Name)
                                and pu.pure(s.value) and s.targets[0].id not in reads and s.targets[0].id != t):
                            break
                        j += 1
                    if not ok:
                        continue
                    s = L[j]

                    class Sub(ast.NodeTransformer):
                        def visit_Name(self, n):
                            if n.id == t and isinstance(n.ctx, ast.Load):
                                return copy.deepcopy(d.value)  # keeps its own source positions (float literals are read from the text)
                            return n
                    s.value = Sub().visit(s.value)
                    del L[i]
                    done.append(t)
                    changed = True
                    break
                if changed:
                    break
            if changed:
                break
        if not changed:
            break
    ast.fix_missing_locations(tree)
    return done


def _count_bindings(tree, name):
    n = 0
    for x in ast.walk(tree):
        if isinstance(x, ast.Name) and x.id == name and isinstance(x.ctx, (ast.Store, ast.Del)):
            n += 1
        elif isinstance(x, (ast.FunctionDef, ast.AsyncFunctionDef, ast.ClassDef)) and x.name == name:
            n += 1
        elif isinstance(x, ast.arg) and x.arg == name:
            n += 1
        elif isinstance(x, ast.alias) and ((x.asname or x.name.split(".")[0]) == name or x.name == "*"):
            n += 1
        elif isinstance(x, (ast.Global, ast.Nonlocal)) and name in x.names:
            n += 1
        elif isinstance(x, ast.ExceptHandler) and x.name == name:
            n += 1
    return n


def _return_chain(stmts, pu):
    """every path through `stmts` ends in `return <pure>`; only `if <pure>:` statements otherwise"""
    if not stmts:
        return False
    s = stmts[0]
    if isinstance(s, ast.Return):
        return len(stmts) == 1 and s.value is not None and pu.pure(s.value)
    if isinstance(s, ast.If):
        return pu.pure(s.test) and _return_chain(s.body, pu) and _return_chain(s.orelse + stmts[1:], pu)
    return False


def _chain_to_assign(stmts, target):
    s = stmts[0]
    if isinstance(s, ast.Return):
        return [ast.Assign(targets=[ast.Name(id=target, ctx=ast.Store())], value=s.value)]
    return [ast.If(test=s.test, body=_chain_to_assign(s.body, target), orelse=_chain_to_assign(s.orelse + stmts[1:], target))]


def inline_new_helpers(tree, known_defs):
    """N3 (in place).  known_defs: names of the functions / methods of the module at the baseline; returns inlined names"""
    pu = _Purity(tree)
    done = []
    helpers = {}
    chains = {}
    for st in tree.body:
        if not (isinstance(st, ast.FunctionDef) and st.name not in known_defs and not st.decorator_list):
            continue
        a = st.args
        if a.posonlyargs or a.kwonlyargs or a.vararg or a.kwarg or a.defaults or a.kw_defaults:
            continue
        body = [s for s in st.body if not (isinstance(s, ast.Expr) and isinstance(s.value, ast.Constant) and isinstance(s.value.value, str))]
        params = [x.arg for x in a.args]
        if len(set(params)) != len(params) or _count_bindings(tree, st.name) != 1:
            continue
        if any(isinstance(n, ast.Name) and n.id == st.name for s in body for n in ast.walk(s)):
            continue  # recursive
        if len(body) == 1 and isinstance(body[0], ast.Return) and body[0].value is not None and pu.pure(body[0].value):
            helpers[st.name] = (st, params, body[0].value)
        elif _return_chain(body, pu):
            chains[st.name] = (st, params, body)
    if chains:
        for qual, fn in _functions(tree).items():
            if fn.name in chains or fn.name in helpers or qual not in known_defs:
                continue
            stores, loads, tainted = _function_facts(fn)
            local = set(stores) | tainted
            for block in list(ast.walk(fn)):
                for field in ("body", "orelse", "finalbody"):
                    L = getattr(block, field, None)
                    if not isinstance(L, list) or (block is not fn and isinstance(block, (ast.FunctionDef, ast.AsyncFunctionDef, ast.ClassDef, ast.Lambda))):
                        continue
                    for i, s in enumerate(L):
                        if not (isinstance(s, ast.Assign) and len(s.targets) == 1 and isinstance(s.targets[0], ast.Name)
                                and isinstance(s.value, ast.Call) and isinstance(s.value.func, ast.Name) and s.value.func.id in chains
                                and s.value.func.id not in local):
                            continue
                        st, params, body = chains[s.value.func.id]
                        c = s.value
                        if c.keywords or len(c.args) != len(params) or any(isinstance(x, ast.Starred) or not pu.pure(x) for x in c.args):
                            continue
                        free = {n.id for b in body for n in _loads(b)} - set(params)
                        if free & local or s.targets[0].id in {n.id for x in c.args for n in _loads(x)} | free:
                            continue  # capture, or the target is read by an argument / the body (it would be re-bound too early)
                        m = dict(zip(params, c.args))

                        class Sub(ast.NodeTransformer):
                            def visit_Name(self, n):
                                if isinstance(n.ctx, ast.Load) and n.id in m:
                                    return copy.deepcopy(m[n.id])
                                return n
                        L[i:i + 1] = _chain_to_assign([Sub().visit(copy.deepcopy(b)) for b in body], s.targets[0].id)
                        done.append(c.func.id)
        for name in set(done):
            st = chains[name][0]
            if name in chains and not any(isinstance(n, ast.Name) and n.id == name for n in ast.walk(tree)) and st in tree.body:
                tree.body.remove(st)
        ast.fix_missing_locations(tree)
    if not helpers:
        return done
    funcs = _functions(tree)
    for qual, fn in funcs.items():
        if fn.name in helpers or qual not in known_defs:
            continue
        stores, loads, tainted = _function_facts(fn)
        local = set(stores) | tainted

        class Inl(ast.NodeTransformer):
            def visit_Lambda(self, node):
                return node  # other scope: left alone

            visit_ListComp = visit_SetComp = visit_DictComp = visit_GeneratorExp = visit_FunctionDef = visit_Lambda

            def visit_Call(self, node):
                self.generic_visit(node)
                if isinstance(node.func, ast.Name) and node.func.id in helpers and node.func.id not in local:
                    st, params, body = helpers[node.func.id]
                    if node.keywords or len(node.args) != len(params) or any(isinstance(x, ast.Starred) or not pu.pure(x) for x in node.args):
                        return node
                    free = {n.id for n in _loads(body)} - set(params)
                    if free & local:
                        return node  # a module-level name of the helper body is shadowed by a local of the caller
                    m = dict(zip(params, node.args))

                    class Sub(ast.NodeTransformer):
                        def visit_Name(self, n):
                            if isinstance(n.ctx, ast.Load) and n.id in m:
                                return copy.deepcopy(m[n.id])
                            return n
                    done.append(node.func.id)
                    return Sub().visit(copy.deepcopy(body))
                return node
        for i, s in enumerate(fn.body):
            fn.body[i] = Inl().visit(s)
    for name in set(done) & set(helpers):
        st = helpers[name][0]
        if not any(isinstance(n, ast.Name) and n.id == name for n in ast.walk(tree)) and not any(
                isinstance(n, ast.Constant) and n.value == name for n in ast.walk(tree)):  # e.g. __all__
            tree.body.remove(st)
    ast.fix_missing_locations(tree)
    return done


def binding_order(fn):
    """names bound by plain stores in the function, in the order of their first binding (source order)"""
    out = []

    def walk(node):
        if isinstance(node, (ast.Lambda, ast.FunctionDef, ast.AsyncFunctionDef, ast.ClassDef, ast.ListComp, ast.SetComp,
                             ast.DictComp, ast.GeneratorExp)):
            return
        if isinstance(node, ast.Assign):  # the value is evaluated before the targets are bound
            walk(node.value)
            for tg in node.targets:
                walk(tg)
            return
        if isinstance(node, ast.Name) and isinstance(node.ctx, ast.Store) and node.id not in out:
            out.append(node.id)
        for ch in ast.iter_child_nodes(node):
            walk(ch)
    for st in fn.body:
        walk(st)
    return out


def function_locals(fn):
    stores, loads, tainted = _function_facts(fn)
    order = binding_order(fn)
    return {"stores": order, "other": sorted((set(stores) | tainted) - set(order))}


REFLECTIVE = {"locals", "vars", "eval", "exec", "globals", "dir", "compile", "__import__"}


def rename_to_baseline(tree, fn, base_stores):
    """N4 on one function (in place); returns {new: old}"""
    stores, loads, tainted = _function_facts(fn)
    cur = binding_order(fn)
    new = [n for n in cur if n not in base_stores]
    gone = [n for n in base_stores if n not in cur]
    if not new or len(new) != len(gone):
        return {}
    if any(isinstance(n, ast.Name) and n.id in REFLECTIVE for n in ast.walk(fn)):
        return {}
    if any(isinstance(n, ast.JoinedStr) for n in ast.walk(fn)) and False:
        return {}
    m = {}
    for a, b in zip(new, gone):
        if a in tainted or b in tainted or b in stores or b in loads or binds_in_module_scope(tree, b):
            return {}
        m[a] = b
    for n in ast.walk(fn):
        if isinstance(n, ast.Name) and n.id in m:
            n.id = m[n.id]
    return m


def binds_in_module_scope(tree, name):
    """the name means something at module level (import, def, class, assignment): a local must not be renamed to it if
    the function might read the global - checked by the caller through `loads`; here only star imports matter"""
    return any(isinstance(n, ast.alias) and n.name == "*" for n in ast.walk(tree))


def _functions(tree):
    out = {}
    for st in tree.body:
        if isinstance(st, (ast.FunctionDef, ast.AsyncFunctionDef)):
            out[st.name] = st
        elif isinstance(st, ast.ClassDef):
            for m in st.body:
                if isinstance(m, (ast.FunctionDef, ast.AsyncFunctionDef)):
                    out["%s.%s" % (st.name, m.name)] = m
    return out


def known_locals(relpath):
    """locals per function of src/bldfm/<relpath> at the verified baseline (committed: harness/known_locals.json,
    regenerate with `python harness/astnorm.py --update` when /repo's baseline moves); {} when the file is not listed"""
    try:
        return json.load(open(KNOWN_LOCALS)).get(relpath, {})
    except Exception:
        return {}


def parse_file(path, relpath=None):
    """parse + N1 + N2 (for every top-level function / method that exists at the baseline under the same name)"""
    tree = parse(open(path).read())
    if relpath is None:
        relpath = path.split("/bldfm/", 1)[1] if "/bldfm/" in path else os.path.basename(path)
    kn = known_locals(relpath)
    if kn:
        inline_new_helpers(tree, set(kn) | {k.split(".")[0] for k in kn})
    for name, fn in _functions(tree).items():
        if name in kn:
            known = set(kn[name]["stores"]) | set(kn[name]["other"])
            rename_to_baseline(tree, fn, kn[name]["stores"])  # a pure renaming (as many new names as vanished ones)
            if inline_new_temporaries(tree, fn, known):
                rename_to_baseline(tree, fn, kn[name]["stores"])  # renaming + new temporaries
                inline_new_temporaries(tree, fn, known)
    return tree


if __name__ == "__main__":
    import sys
    if "--update" in sys.argv:
        root = os.path.join(os.environ.get("BLDFM_REPO", "/repo"), "src", "bldfm")
        out = {}
        for dp, dn, fns in os.walk(root):
            for f in sorted(fns):
                if f.endswith(".py"):
                    p = os.path.join(dp, f)
                    tr = ast.parse(open(p).read())
                    out[os.path.relpath(p, root)] = {k: function_locals(v) for k, v in sorted(_functions(tr).items())}
        json.dump(out, open(KNOWN_LOCALS, "w"), indent=0, sort_keys=True)
        print("wrote", KNOWN_LOCALS)
    else:
        print(ast.unparse(parse_file(sys.argv[1])))
