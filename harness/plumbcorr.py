"""Exact correspondence of the INDEX semantics that Model/SolverArray.v ascribes to the numpy calls of the plumbing
(C11): np.pad, numpy.fft.fftshift / ifftshift (with and without axes), slicing, the boolean mask (X[msk] gathering in C
order, A[:, msk] = V scattering), numpy.fft.fftfreq(n, d=1/n) and np.meshgrid.  These calls move numbers around without
arithmetic, so the comparison is exact: integer-valued arrays go through the real numpy functions (the ones solver.py
imports) and through the model's operations (run_ops over an Ops instance with carrier Z, vm_compute), every entry is
compared.  Sizes cover every parity of the padded size, of the pad width and of the retained count (clamped counts can be
odd).  The DFT itself (pyFFTW vs the definitional sum, norm conventions) is arithmetic and is covered by the whole-solve
float correspondence, not here."""
import ast
import itertools

import numpy as np
from numpy.fft import fftfreq, fftshift, ifftshift

import core

HEADER = r"""
From Coq Require Import ZArith List Bool.
From BL Require Import Base.Ops Model.Solver Model.SolverArray Proofs.Plumbing.
Import ListNotations. Open Scope Z_scope.
Definition ZO : Ops := mkOps Z 0 1 Z.add Z.mul Z.sub Z.div Z.opp (fun x => x) 0 (fun z => z) 0
  (fun x => x) (fun x => x) (fun x => x) (fun x => x) (fun x => x) Z.ltb.
Definition tab3 (t : list (list (list Z))) : Z -> Z -> Z -> Z :=
  fun k j i => nth (Z.to_nat i) (nth (Z.to_nat j) (nth (Z.to_nat k) t []) []) (-7).
Definition dump (nl : nat) (x : option (arr ZO)) : list (list (list Z)) :=
  match x with
  | None => []
  | Some x => map (fun k => map (fun j => map (fun i => ar_at ZO x (Z.of_nat k) (Z.of_nat j) (Z.of_nat i))
                                   (seq 0 (Z.to_nat (ar_cols ZO x)))) (seq 0 (Z.to_nat (ar_rows ZO x)))) (seq 0 nl)
  end.
Definition back_ops : list plumb_op :=
  [OpShift false Axes12;
   OpPad3 (ZC 0) (ZC 0) (ZV Vdly) (ZSub (ZSub (ZV Vnye) (ZV Vnly)) (ZV Vdly)) (ZV Vdlx) (ZSub (ZSub (ZV Vnxe) (ZV Vnlx)) (ZV Vdlx));
   OpShift true Axes12;
   OpSlice3 (ZV Vpy) (ZSub (ZV Vnye) (ZV Vpy)) (ZV Vpx) (ZSub (ZV Vnxe) (ZV Vpx))].
Definition fwd_ops : list plumb_op :=
  [OpPad2 (ZV Vpy) (ZV Vpy) (ZV Vpx) (ZV Vpx);
   OpShift false AxesAll;
   OpSlice2 (ZV Vdly) (ZAdd (ZV Vdly) (ZV Vnly)) (ZV Vdlx) (ZAdd (ZV Vdlx) (ZV Vnlx));
   OpShift true AxesAll].
Definition se1 : svar -> Z -> Z -> Z := fun _ _ _ => 1.
Definition geo (nx ny px py nxe nye nlx nly : nat) : geom ZO := mkGeom ZO nx ny 1%nat 1 1 px py nxe nye nlx nly.
Definition scatter_pos (g : geom ZO) : list (list Z) :=
  map (fun ty => map (fun tx => match index_of (tx, ty) (msk_idx ZO g) with Some m => Z.of_nat m | None => -1 end)
                     (seq 0 (g_nlx ZO g))) (seq 0 (g_nly ZO g)).
Definition mesh_tabs (nly nlx : nat) : list (list Z) * list (list Z) :=
  (map (fun ty => map (fun tx => mesh_x ZO (fun t => t * 10) (Z.of_nat ty) (Z.of_nat tx)) (seq 0 nlx)) (seq 0 nly),
   map (fun ty => map (fun tx => mesh_y ZO (fun t => t * 7) (Z.of_nat ty) (Z.of_nat tx)) (seq 0 nlx)) (seq 0 nly)).
"""


def zl(x):
    """nested list of ints -> Coq list literal"""
    if isinstance(x, (list, tuple)):
        return "[" + "; ".join(zl(e) for e in x) + "]"
    return "(%d)" % int(x)


def parse(txt):
    return ast.literal_eval(txt.replace(";", ","))


def axis_configs(sizes):
    out = []
    for n in sizes:
        for p in (0, 1, 2):
            ne = n + 2 * p
            for L in sorted({2, 4, ne}):
                if 0 < L <= ne and (L % 2 == 0 or L == ne):   # even requests, or the clamp (L = ne, possibly odd)
                    out.append((n, p, ne, L))
    return out


def cases(thorough):
    ys = axis_configs((2, 3) if not thorough else (2, 3, 4))
    xs = axis_configs((2, 3, 5) if not thorough else (2, 3, 4, 5))
    if thorough:
        return list(itertools.product(ys, xs))
    return [(ys[i % len(ys)], xs[(5 * i + 2) % len(xs)]) for i in range(48)]


def numpy_side(c):
    (ny, py, nye, nly), (nx, px, nxe, nlx) = c
    dly, dlx = nye // 2 - nly // 2, nxe // 2 - nlx // 2
    T = np.arange(2 * nly * nlx).reshape(2, nly, nlx) + 1
    t = fftshift(T, axes=(1, 2))
    f = np.pad(t, ((0, 0), (dly, nye - nly - dly), (dlx, nxe - nlx - dlx)), mode="constant", constant_values=0.0)
    f = ifftshift(f, axes=(1, 2))
    back = f[:, py : nye - py, px : nxe - px]
    Q = np.arange(ny * nx).reshape(ny, nx) + 1
    q = np.pad(Q, ((py, py), (px, px)), mode="constant", constant_values=0.0)
    q = fftshift(q)
    q = q[dly : dly + nly, dlx : dlx + nlx]
    fwd = ifftshift(q)
    msk = np.ones((nly, nlx), dtype=bool)
    msk[0, 0] = False
    X = np.arange(nly * nlx).reshape(nly, nlx)
    gathered = X[msk]
    A = -np.ones((2, nly, nlx), dtype=int)
    M = nly * nlx - 1
    A[:, msk] = np.arange(2 * M).reshape(2, M)
    Lx, Ly = np.meshgrid(np.arange(nlx) * 10, np.arange(nly) * 7)
    return dict(T=T.tolist(), Q=[Q.tolist()], back=back.astype(int).tolist(), fwd=[fwd.astype(int).tolist()],
                gathered=gathered.tolist(), scatter=A[0].tolist(), mesh=(Lx.tolist(), Ly.tolist()),
                fx=[int(v) for v in fftfreq(nlx, d=1.0 / nlx)], fy=[int(v) for v in fftfreq(nly, d=1.0 / nly)],
                exact=bool(np.all(fftfreq(nlx, d=1.0 / nlx) == np.round(fftfreq(nlx, d=1.0 / nlx)))))


def coq_term(c, d):
    (ny, py, nye, nly), (nx, px, nxe, nlx) = c
    env = "(mk_env %d %d %d %d %d %d)" % (py, px, nye, nxe, nly, nlx)
    g = "(geo %d %d %d %d %d %d %d %d)" % (nx, ny, px, py, nxe, nye, nlx, nly)
    return ("(dump 2 (run_ops ZO %s se1 back_ops (mkArr ZO true %d %d (tab3 %s))), "
            "dump 1 (run_ops ZO %s se1 fwd_ops (mkArr ZO false %d %d (tab3 %s))), "
            "gather ZO %s (fun ty tx => ty * %d + tx), scatter_pos %s, mesh_tabs %d %d, "
            "map (fun t => zfftfreq %d (Z.of_nat t)) (seq 0 %d), map (fun t => zfftfreq %d (Z.of_nat t)) (seq 0 %d))"
            % (env, nly, nlx, zl(d["T"]), env, ny, nx, zl(d["Q"]), g, nlx, g, nly, nlx, nlx, nlx, nly, nly))


def run(ctx):
    cs = cases(ctx.thorough)
    py = [numpy_side(c) for c in cs]
    terms = [("plumbops%d" % i, coq_term(c, d)) for i, (c, d) in enumerate(zip(cs, py))]
    res = core.coq_eval_sharded(ctx, "c11_plumbops", HEADER, terms, shard=16, timeout=600)
    if "__error__" in res:
        ctx.fail("correspondence", "C11:plumbing-ops", "evaluation of the array operations failed: " + res["__error__"][-800:])
        return
    bad = 0
    hist = {}
    for i, (c, d) in enumerate(zip(cs, py)):
        (ny, p_y, nye, nly), (nx, p_x, nxe, nlx) = c
        k = "parity n/p/L y:%d%d%d x:%d%d%d" % (nye % 2, p_y % 2, nly % 2, nxe % 2, p_x % 2, nlx % 2)
        hist[k] = hist.get(k, 0) + 1
        try:
            back, fwd, gathered, scatter, mesh, fx, fy = parse(res["plumbops%d" % i])
        except Exception as e:
            ctx.fail("correspondence", "C11:plumbing-ops-%d" % i, "unreadable model output: %s" % e)
            bad += 1
            continue
        diffs = [n for n, a, b in (("untruncate+crop", back, d["back"]), ("pad+truncate", fwd, d["fwd"]),
                                   ("X[msk]", gathered, d["gathered"]), ("A[:, msk] = V", scatter, d["scatter"]),
                                   ("meshgrid", [list(map(list, mesh[0])), list(map(list, mesh[1]))], [d["mesh"][0], d["mesh"][1]]),
                                   ("fftfreq x", fx, d["fx"]), ("fftfreq y", fy, d["fy"]))
                 if _norm(a) != _norm(b)]
        if diffs or not d["exact"]:
            bad += 1
            ctx.fail("correspondence", "C11:plumbing-ops-%d" % i,
                     "numpy and Model/SolverArray.v disagree on %s for ny=%d py=%d nly=%d nx=%d px=%d nlx=%d" % (diffs, ny, p_y, nly, nx, p_x, nlx))
    ctx.cov["evaluations"] = ctx.cov.get("evaluations", 0) + len(cs)
    ctx.cov["plumbing_ops"] = {"cases": len(cs), "disagreeing": bad,
                               "rule": "integer arrays through numpy's pad/fftshift/ifftshift/slicing/mask/meshgrid/fftfreq and through the array "
                                       "model's operations (carrier Z, vm_compute), every entry compared exactly; all parities of padded size, pad width, retained count",
                               "histogram": hist}


def _norm(x):
    if isinstance(x, (list, tuple)):
        return [_norm(e) for e in x]
    return int(x)
