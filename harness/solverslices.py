"""Slices of bldfm/solver.py re-extracted on every run (tie B) and the bridge file that re-proves
gen_x = Model.Solver.x for all arguments."""
import os

import core
import py2coq

SOLVER = lambda: os.path.join(core.SRC, "bldfm", "solver.py")
IVP = "ivp_solver"
SST = "steady_state_transport_solver"

SLICES = [
    # ivp_solver: mode symbol and layer step
    dict(name="Ti", func=IVP, target="Ti", params=["Kx_i", "Ky_i", "u_i", "v_i", "Lx", "Ly"]),
    dict(name="Kzinv", func=IVP, target="Kzinv", params=["Kz_i"]),
    dict(name="dzi", func=IVP, target="dzi", params=["dz_i"]),
    dict(name="a", func=IVP, target="a", params=["Kzinv", "Ti", "dzi"]),
    dict(name="b", func=IVP, target="b", params=["Kzinv", "Ti", "dzi"]),
    dict(name="c", func=IVP, target="c", params=["Kzinv", "Ti", "dzi"]),
    dict(name="d", func=IVP, target="d", params=["Kzinv", "Ti", "dzi"]),
    dict(name="p_next", func=IVP, target="fftpi", occ=1, inline=["dum"], params=["a", "b", "fftpi", "fftqi"]),
    dict(name="q_next", func=IVP, target="fftqi", occ=1, params=["c", "d", "fftpi", "fftqi"]),
    # steady_state_transport_solver
    dict(name="dx", func=SST, target="dx", params=["xmx", "nx"]),
    dict(name="dy", func=SST, target="dy", params=["ymx", "ny"]),
    dict(name="lx", func=SST, target="lx", params=["dx", "nxe", "ilx"]),
    dict(name="ly", func=SST, target="ly", params=["dy", "nye", "ily"]),
    dict(name="eigval", func=SST, target="eigval", inline=["Kzinv", "KxKzinv", "KyKzinv"],
         params=["Kx_nz_minus_1", "Ky_nz_minus_1", "u_nz_minus_1", "v_nz_minus_1", "Kz_nz_minus_1", "Lx_msk", "Ly_msk"]),
    dict(name="alpha", func=SST, target="alpha", params=["tfftq2", "tfftp2", "tfftq1", "tfftp1", "Kz_nz_minus_1", "eigval"]),
    dict(name="comb_p", func=SST, target="tfftp[:, msk]", occ=1, params=["alpha", "tfftpm1", "tfftpm2"]),
    dict(name="comb_q", func=SST, target="tfftq[:, msk]", occ=1, params=["alpha", "tfftqm1", "tfftqm2"]),
    dict(name="mean_update", func=SST, target="tfftp00", occ=1, params=["tfftp00", "tfftq0_0_0", "dz_i", "Kz_i", "Kz_i_plus_1"]),
    dict(name="an_h", func=SST, target="h", params=["z_levels", "z_0"]),
    dict(name="an_q", func=SST, target="tfftq[:, msk]", occ=0, params=["tfftq0_msk", "eigval", "h_np_newaxis"]),
    dict(name="an_p", func=SST, target="tfftp[:, msk]", occ=0, params=["tfftq_msk", "Kzinv", "eigval"]),
    dict(name="an_mean", func=SST, target="tfftp[:, 0, 0]", occ=0, params=["p000", "tfftq0_0_0", "Kzinv", "h"]),
    dict(name="shift_fp", func=SST, target="shift", occ=0, params=["Lx", "Ly", "xm", "ym", "px", "py", "dx", "dy"]),
    dict(name="shift_ctr", func=SST, target="shift", occ=1, params=["Lx", "Ly", "xm", "ym", "xmx", "ymx"]),
    # guard of the re-centring shift:  elif xm**2 + ym**2 > 0.0
    dict(name="recentre_guard", func=SST, iftest=r"xm\s*\*\*\s*2", params=["xm", "ym"]),
]


# integer index arithmetic of the plumbing (backend "Z"): sizes, band start, slice bounds, pad widths, crop
ZSLICES = [
    # conditions: parity check of the requested modes, clamp
    dict(name="modes_odd", func=SST, iftest=r"nlx % 2", params=["nlx", "nly"]),
    dict(name="clamp_cond", func=SST, iftest=r"nlx > nxe", params=["nlx", "nly", "nxe", "nye"]),
    dict(name="nxe", func=SST, target="nxe", params=["nx", "px"]),
    dict(name="nye", func=SST, target="nye", params=["ny", "py"]),
    dict(name="dlx", func=SST, target="dlx", params=["nxe", "nlx"]),
    dict(name="dly", func=SST, target="dly", params=["nye", "nly"]),
    # q0 = np.pad(q0, ((py, py), (px, px)), ...)
    dict(name="srcpad_y_lo", func=SST, target="q0", occ=1, path=[("arg", 1), ("elt", 0), ("elt", 0)], params=["py"]),
    dict(name="srcpad_y_hi", func=SST, target="q0", occ=1, path=[("arg", 1), ("elt", 0), ("elt", 1)], params=["py"]),
    dict(name="srcpad_x_lo", func=SST, target="q0", occ=1, path=[("arg", 1), ("elt", 1), ("elt", 0)], params=["px"]),
    dict(name="srcpad_x_hi", func=SST, target="q0", occ=1, path=[("arg", 1), ("elt", 1), ("elt", 1)], params=["px"]),
    # tfftq0 = fftq0[dly : dly + nly, dlx : dlx + nlx]
    dict(name="trunc_y_lo", func=SST, target="tfftq0", occ=1, path=[("slice", 0, "lower")], params=["dly"]),
    dict(name="trunc_y_hi", func=SST, target="tfftq0", occ=1, path=[("slice", 0, "upper")], params=["dly", "nly"]),
    dict(name="trunc_x_lo", func=SST, target="tfftq0", occ=1, path=[("slice", 1, "lower")], params=["dlx"]),
    dict(name="trunc_x_hi", func=SST, target="tfftq0", occ=1, path=[("slice", 1, "upper")], params=["dlx", "nlx"]),
    # fftp = np.pad(tfftp, ((0, 0), (dly, nye - nly - dly), (dlx, nxe - nlx - dlx)), ...)
    dict(name="unpad_l_lo", func=SST, target="fftp", occ=0, path=[("arg", 1), ("elt", 0), ("elt", 0)], params=[]),
    dict(name="unpad_l_hi", func=SST, target="fftp", occ=0, path=[("arg", 1), ("elt", 0), ("elt", 1)], params=[]),
    dict(name="unpad_y_lo", func=SST, target="fftp", occ=0, path=[("arg", 1), ("elt", 1), ("elt", 0)], params=["dly"]),
    dict(name="unpad_y_hi", func=SST, target="fftp", occ=0, path=[("arg", 1), ("elt", 1), ("elt", 1)], params=["nye", "nly", "dly"]),
    dict(name="unpad_x_lo", func=SST, target="fftp", occ=0, path=[("arg", 1), ("elt", 2), ("elt", 0)], params=["dlx"]),
    dict(name="unpad_x_hi", func=SST, target="fftp", occ=0, path=[("arg", 1), ("elt", 2), ("elt", 1)], params=["nxe", "nlx", "dlx"]),
    dict(name="unpadq_y_lo", func=SST, target="fftq", occ=0, path=[("arg", 1), ("elt", 1), ("elt", 0)], params=["dly"]),
    dict(name="unpadq_y_hi", func=SST, target="fftq", occ=0, path=[("arg", 1), ("elt", 1), ("elt", 1)], params=["nye", "nly", "dly"]),
    dict(name="unpadq_x_lo", func=SST, target="fftq", occ=0, path=[("arg", 1), ("elt", 2), ("elt", 0)], params=["dlx"]),
    dict(name="unpadq_x_hi", func=SST, target="fftq", occ=0, path=[("arg", 1), ("elt", 2), ("elt", 1)], params=["nxe", "nlx", "dlx"]),
    # conc = p[:, py : nye - py, px : nxe - px]   flx = q[...]
    dict(name="crop_c_y_lo", func=SST, target="conc", path=[("slice", 1, "lower")], params=["py"]),
    dict(name="crop_c_y_hi", func=SST, target="conc", path=[("slice", 1, "upper")], params=["nye", "py"]),
    dict(name="crop_c_x_lo", func=SST, target="conc", path=[("slice", 2, "lower")], params=["px"]),
    dict(name="crop_c_x_hi", func=SST, target="conc", path=[("slice", 2, "upper")], params=["nxe", "px"]),
    dict(name="crop_f_y_lo", func=SST, target="flx", path=[("slice", 1, "lower")], params=["py"]),
    dict(name="crop_f_y_hi", func=SST, target="flx", path=[("slice", 1, "upper")], params=["nye", "py"]),
    dict(name="crop_f_x_lo", func=SST, target="flx", path=[("slice", 2, "lower")], params=["px"]),
    dict(name="crop_f_x_hi", func=SST, target="flx", path=[("slice", 2, "upper")], params=["nxe", "px"]),
]


# the expression slices that lie inside the regions translated as a whole (py2coq_kernel): the layer step of ivp_solver
# and the trapezoid update of the mean mode.  They go to GenStep.v / Bridge/StepBridge.v.
STEP_NAMES = ("Ti", "Kzinv", "dzi", "a", "b", "c", "d", "p_next", "q_next", "mean_update")
STEP_SLICES = [sl for sl in SLICES if sl["name"] in STEP_NAMES]
REST_SLICES = [sl for sl in SLICES if sl["name"] not in STEP_NAMES]
STEP_LEMMAS = ["bridge_Ti", "bridge_Kzinv", "bridge_dzi", "bridge_a", "bridge_b", "bridge_c", "bridge_d", "bridge_step", "bridge_mean_update"]


def generate():
    return py2coq.translate(SOLVER(), REST_SLICES, "ops")


def generate_step():
    return py2coq.translate(SOLVER(), STEP_SLICES, "ops")


# the two conditions that Bridge/SolverTopBridge.v (bridge_top_modes_check, bridge_top_geometry) also proves, for all arguments
COND_NAMES = ("modes_odd", "clamp_cond")
COND_LEMMAS = ["bridge_modes_odd", "bridge_clamp_cond"]


def generate_z():
    return py2coq.translate(SOLVER(), [sl for sl in ZSLICES if sl["name"] not in COND_NAMES], "Z")


def generate_cond():
    return py2coq.translate(SOLVER(), [sl for sl in ZSLICES if sl["name"] in COND_NAMES], "Z")


SKELETON = os.path.join(os.path.dirname(os.path.abspath(__file__)), "solver_skeleton.json")


def current_skeleton():
    """the body of ivp_solver and the mean-mode block of steady_state_transport_solver are translated and bridged as a
    whole (py2coq_kernel / Bridge/KernelBridge.v): they appear as one placeholder line each, so that a rewrite of their
    loops is judged by the bridge lemmas and not by its text.  If the regions cannot be located nothing is elided (and
    the skeleton differs from the expectation)."""
    import skeleton
    import py2coq_kernel

    def elide(tree):
        try:
            out = py2coq_kernel.elide(tree)
        except Exception:
            return {}
        # statements the top-level translator INTERPRETS (scalar / index / coordinate statements, raises, the conditionals
        # around them) are judged by Bridge/SolverTopBridge.v, not by their text; a run of them is one placeholder line
        try:
            import py2coq_solvertop
            for k, v in py2coq_solvertop.elide(tree).items():
                out.setdefault(k, v)
        except Exception:
            pass
        return out

    return skeleton.module_skeleton(SOLVER(), [SST, IVP], SLICES + ZSLICES, elide)


KERNEL_TRUSTED = [
    "harness/py2coq_kernel.py (fail-closed whole-function translator of ivp_solver and of the mean-mode block of steady_state_transport_solver -> GenKernel.v): its reading of the arrays - numpy broadcasting over the mode axis is ELEMENTWISE, so the body is translated for ONE horizontal mode; an array of shape (nlvls, nxy) is the list of its nlvls slots for that mode and `a[lvl, ...] = x` updates slot lvl; profile arrays are lists indexed by node; np.diff(z)[i] = z[i+1] - z[i]; np.copy / rebinding of a name does not alias (the accepted fragment has no in-place operation on arrays over modes or nodes); range / enumerate / list comprehension / tuple assignment have their Python semantics",
    "Bridge/KernelBridge.v: gen_ivp_solver = Solver.ivp and gen_mean_mode = Solver.mean_loop for ALL inputs (closed under the global context, hypothesis Laws O only for the layer-step / trapezoid algebra; the loop structure needs no field law)",
]
KERNEL_ASSUMPTIONS = [
    "kernel bridge: the column has at least one node and every profile array has at least nz - 1 entries (Kz: nz for the mean mode) - otherwise Python raises IndexError (numba: reads out of bounds) and the model's truncating zip does not describe it; level entries are non-negative ints (a negative entry never matches a node index in the code; the model's level lists are lists of nat)",
]


def run_kernel(ctx):
    """whole-function tie of the kernel: ivp_solver and the mean-mode block -> GenKernel.v -> Bridge/KernelBridge.v
    (once per check: the skeleton elides exactly the statements this covers)"""
    if getattr(ctx, "_kernel_done", None) is not None:
        return ctx._kernel_done
    import py2coq_kernel
    try:
        text = py2coq_kernel.generate(SOLVER())
    except Exception as e:  # fail closed (TranslateError or anything unexpected in the source)
        ctx.obligation("gen:GenKernel.v", False, "whole-function translator of the kernel failed closed: %s: %s" % (type(e).__name__, e))
        ctx._kernel_done = False
        return False
    ctx.cov["whole_functions_translated"] = ctx.cov.get("whole_functions_translated", []) + [
        "solver.ivp_solver (whole body, one mode)", "solver.steady_state_transport_solver: mean-mode block"]
    for t in KERNEL_TRUSTED:
        if t not in ctx.trusted:
            ctx.trusted.append(t)
    for t in KERNEL_ASSUMPTIONS:
        if t not in ctx.assumptions:
            ctx.assumptions.append(t)
    ctx._kernel_done = core.run_bridge(ctx, {"GenKernel.v": text}, ["KernelBridge.v"])
    return ctx._kernel_done


def run_top(ctx):
    """whole-function tie of the TOP LEVEL of steady_state_transport_solver (harness/py2coq_solvertop.py): what holds the
    slices, the kernel, the plumbing pipelines and the cache block together, bridged to the model for all arguments"""
    import py2coq_solvertop
    return py2coq_solvertop.run(ctx)


def check_skeleton(ctx):
    """every statement of solver.py's two functions and its module level is either bridged or exactly the expected one"""
    import json
    import skeleton
    run_kernel(ctx)
    try:
        got = current_skeleton()
    except Exception as e:  # fail closed
        ctx.obligation("structure:solver-skeleton", False, "skeleton extraction failed: %s" % e)
        return False
    want = json.load(open(SKELETON))
    diffs = skeleton.compare(got, want)
    ctx.obligation("structure:solver-skeleton", not diffs,
                   "" if not diffs else "statements of bldfm/solver.py differ from the ones the model describes (bridged expressions excluded):\n" + "\n".join(diffs)[:1400])
    return not diffs


def run(ctx):
    """translate + compile + bridge; registers proof obligations on ctx"""
    check_skeleton(ctx)  # runs the whole-function tie of the kernel first (run_kernel)
    top_ok = run_top(ctx)  # top level of steady_state_transport_solver -> GenSolverTop.v -> Bridge/SolverTopBridge.v, Bridge/EndToEnd.v
    ok_cond = True
    try:
        ctext = generate_cond()
    except py2coq.TranslateError as e:
        ctext = None
        if top_ok:
            # the slices address the two conditions by their text (`nlx % 2`, `nlx > nxe`) and accept comparisons only; the
            # conditions were rewritten, but bridge_top_modes_check / bridge_top_geometry hold for the current source and imply both lemmas
            ctx.cov["cond_slices_subsumed"] = {
                "by": ["bridge_top_modes_check", "bridge_top_geometry"], "lemmas": COND_LEMMAS,
                "why": "condition slices not translatable (%s); the whole-function bridge of the top level holds" % e}
        else:
            ctx.obligation("gen:GenTopCond.v", False, "slice translator failed closed: %s" % e)
            ok_cond = False
    if ctext is not None:
        ctx.cov["slices_translated"] = ctx.cov.get("slices_translated", 0) + len(COND_NAMES)
        ok_cond = core.run_bridge(ctx, {"GenTopCond.v": ctext}, ["TopCondBridge.v"])
    kernel_ok = bool(getattr(ctx, "_kernel_done", False))
    ok_step = True
    try:
        step = generate_step()
    except py2coq.TranslateError as e:
        step = None
        if kernel_ok:
            # the slices address statements by the names of locals (`Ti`, `Kx[i]`, `fftpi`); the names moved, but
            # bridge_ivp_solver / bridge_mean_mode hold for the current source and imply every lemma of StepBridge.v
            ctx.cov["step_slices_subsumed"] = {
                "by": ["bridge_ivp_solver", "bridge_mean_mode"], "lemmas": STEP_LEMMAS,
                "why": "expression slices not found by name (%s); the whole-function bridge of the kernel holds" % e}
        else:
            ctx.obligation("gen:GenStep.v", False, "slice translator failed closed: %s" % e)
            ok_step = False
    if step is not None:
        ctx.cov["slices_translated"] = ctx.cov.get("slices_translated", 0) + len(STEP_SLICES)
        ok_step = core.run_bridge(ctx, {"GenStep.v": step}, ["StepBridge.v"])
    try:
        text = generate()
    except py2coq.TranslateError as e:
        ctx.obligation("gen:GenSolver.v", False, "slice translator failed closed: %s" % e)
        return False
    ctx.cov["slices_translated"] = ctx.cov.get("slices_translated", 0) + len(REST_SLICES)
    ok = core.run_bridge(ctx, {"GenSolver.v": text}, ["SolverBridge.v"]) and ok_step
    try:
        ztext = generate_z()
    except py2coq.TranslateError as e:
        ctx.obligation("gen:GenPlumb.v", False, "slice translator failed closed: %s" % e)
        return False
    ctx.cov["slices_translated"] += len(ZSLICES) - len(COND_NAMES)
    return core.run_bridge(ctx, {"GenPlumb.v": ztext}, ["PlumbBridge.v"]) and ok and ok_cond
