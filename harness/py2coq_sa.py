"""Fail-closed translator for the ARRAY part of C20 (tie B).

Reads, with `ast`, the CURRENT bodies of

    bldfm/utils.py              get_source_area(f, g)
    bldfm/plotting/_common.py   _maybe_slice_level(field, grid, level=0)
    bldfm/plotting/footprint.py extract_percentile_contour(flx, grid, pct=0.8, level=0)

and emits `GenSA.v`: the three functions as closed terms (gen_get_source_area, gen_maybe_slice_level,
gen_extract_percentile_contour : fn_desc) of the array-program language of coq/Model/SADesc.v, statement by statement,
expression by expression.  Nothing is interpreted or simplified here; what the syntax means is fixed by the interpreter
of SADesc.v, and coq/Bridge/SABridge.v proves (per run) that the interpreted programs equal Model/SourceArea.v.

Accepted fragment (everything else raises TranslateError -> broken obligation gen:GenSA.v):

  statements   x = e | x, y, .. = e | x[lo:hi] = e (int literal bounds, no step) | x[i] = e | if/elif/else | return e
               (a leading docstring is skipped; nothing else: no loops, augmented assignments, expression statements,
               bare return, nested def, with/try/assert/del/global)
  expressions  names | int literals (incl. -n) | tuple displays | e.ndim | e.shape | e.ravel() (NO argument: an
               order="F"/"K" is rejected) | e.reshape(x) | np.argsort(e) | np.cumsum(e) | np.zeros_like(e) |
               np.empty_like(e) | np.abs(e) | np.searchsorted(a, v) (NO keyword: side="right"/sorter are rejected) |
               e[::-1] | e[lo:hi] | e[i] | e[i, j] | a + b | a - b | a * b | a == b | a if c else b | min(a, b) | len(e) |
               float(e) | _maybe_slice_level(..) (positional arguments; only inside extract_percentile_contour)
  signatures   plain positional parameters, defaults only int / float literals, no annotations, decorators, *args ...

Checks that keep the value semantics of SADesc.v (no aliasing) faithful:
  * a name that is stored into (x[..] = ..) is no parameter, is bound only by `x = np.zeros_like(..)` /
    `np.empty_like(..)` / `np.cumsum(..)` (fresh arrays), never by unpacking, and is never read in a position where a
    second reference to the same buffer could be created (right-hand side of a name binding, tuple display, argument of
    a described function - directly or through a view such as a slice, ravel(), reshape(), [::-1], x[i]); reading it as
    an operand of an operation that allocates its result, as the stored value, or in the returned expression is fine;
  * `np` is bound by `import numpy as np` and by nothing else at module level or inside the function; `min`, `len`,
    `float` are bound nowhere at module level or inside the function (they are the builtins);
  * `_maybe_slice_level` in footprint.py is bound exactly by `from ._common import .. _maybe_slice_level ..`;
  * each function is defined exactly once, at module level, by a plain undecorated `def`.
"""
import ast
import os
from fractions import Fraction

import core
from py2coq import TranslateError

NP_FUNCS = {"argsort": "NArgsort", "cumsum": "NCumsum", "zeros_like": "NZerosLike", "empty_like": "NEmptyLike", "abs": "NAbs"}
FRESH = {"zeros_like", "empty_like", "cumsum"}
BINOPS = {ast.Add: "BAdd", ast.Sub: "BSub", ast.Mult: "BMul"}
BUILTINS = ("min", "len", "float")
RESERVED = ("np",) + BUILTINS

TARGETS = [
    # (gen name, file below src/bldfm, function, callable described functions)
    ("gen_get_source_area", "utils.py", "get_source_area", ()),
    ("gen_maybe_slice_level", os.path.join("plotting", "_common.py"), "_maybe_slice_level", ()),
    ("gen_extract_percentile_contour", os.path.join("plotting", "footprint.py"), "extract_percentile_contour", ("_maybe_slice_level",)),
]


def _err(where, node, msg):
    raise TranslateError("%s, line %s: %s" % (where, getattr(node, "lineno", "?"), msg))


def _str(where, node, s):
    if not (isinstance(s, str) and s.isascii() and s.isidentifier()):
        _err(where, node, "identifier %r" % (s,))
    return '"%s"' % s


def _z(n):
    return "(%d)%%Z" % n


def _int_literal(e):
    """-> int for an int literal or its negation, else None"""
    if isinstance(e, ast.Constant) and isinstance(e.value, int) and not isinstance(e.value, bool):
        return e.value
    if isinstance(e, ast.UnaryOp) and isinstance(e.op, ast.USub) and isinstance(e.operand, ast.Constant) \
            and isinstance(e.operand.value, int) and not isinstance(e.operand.value, bool):
        return -e.operand.value
    return None


def _is_doc(st):
    return isinstance(st, ast.Expr) and isinstance(st.value, ast.Constant) and isinstance(st.value.value, str)


class Fun:
    def __init__(self, where, params, callables):
        self.where = where
        self.params = list(params)
        self.callables = set(callables)
        self.mutated = {}     # name -> node of the first store into it
        self.bindings = {}    # name -> list of rhs nodes (None for unpacking)
        self.alias_loads = []  # (name, node) bare reads in a position that can create a second reference

    def err(self, node, msg):
        _err(self.where, node, msg)

    # ---------------------------------------------------------------- expressions
    # ctx: "alias" (the value may become reachable under a name), "use" (consumed by an allocating operation / a store /
    #      a test), "return" (handed to the caller, nothing runs afterwards)
    def expr(self, e, ctx):
        n = _int_literal(e)
        if n is not None:
            return "(EInt %s)" % _z(n)
        if isinstance(e, ast.Constant):
            self.err(e, "literal %r (only integer literals)" % (e.value,))
        if isinstance(e, ast.Name):
            if not isinstance(e.ctx, ast.Load):
                self.err(e, "name in store position")
            if e.id in RESERVED or e.id in self.callables:
                self.err(e, "%s used as a value" % e.id)
            if ctx == "alias":
                self.alias_loads.append((e.id, e))
            return "(EName %s)" % _str(self.where, e, e.id)
        if isinstance(e, ast.Tuple):
            if not isinstance(e.ctx, ast.Load) or any(isinstance(x, ast.Starred) for x in e.elts) or not e.elts:
                self.err(e, "tuple pattern / starred / empty tuple")
            return "(ETuple [%s])" % "; ".join(self.expr(x, ctx) for x in e.elts)
        if isinstance(e, ast.Attribute):
            if not isinstance(e.ctx, ast.Load):
                self.err(e, "attribute store")
            if e.attr == "ndim":
                return "(ENdim %s)" % self.expr(e.value, "use")
            if e.attr == "shape":
                return "(EShape %s)" % self.expr(e.value, "use")
            self.err(e, "attribute .%s" % e.attr)
        if isinstance(e, ast.Call):
            return self.call(e, ctx)
        if isinstance(e, ast.Subscript):
            if not isinstance(e.ctx, ast.Load):
                self.err(e, "subscript in store position")
            return self.subscript(e, ctx)
        if isinstance(e, ast.BinOp):
            if type(e.op) not in BINOPS:
                self.err(e, "operator %s" % type(e.op).__name__)
            return "(EBin %s %s %s)" % (BINOPS[type(e.op)], self.expr(e.left, "use"), self.expr(e.right, "use"))
        if isinstance(e, ast.Compare):
            if len(e.ops) != 1 or not isinstance(e.ops[0], ast.Eq):
                self.err(e, "comparison other than a single ==")
            return "(EEq %s %s)" % (self.expr(e.left, "use"), self.expr(e.comparators[0], "use"))
        if isinstance(e, ast.IfExp):
            return "(EIfExp %s %s %s)" % (self.expr(e.test, "use"), self.expr(e.body, ctx), self.expr(e.orelse, ctx))
        self.err(e, "expression %s" % type(e).__name__)

    def _slice_index(self, node):
        idx = node.slice
        if idx.__class__.__name__ == "Index":  # python < 3.9
            idx = idx.value
        return idx

    def _bound(self, node, b):
        if b is None:
            return "None"
        n = _int_literal(b)
        if n is None:
            self.err(node, "slice bound that is not an integer literal")
        return "(Some %s)" % _z(n)

    def subscript(self, e, ctx):
        idx = self._slice_index(e)
        if isinstance(idx, ast.Slice):
            if idx.step is not None:
                if idx.lower is None and idx.upper is None and _int_literal(idx.step) == -1:
                    return "(ERev %s)" % self.expr(e.value, ctx)
                self.err(e, "slice with a step other than [::-1]")
            return "(ESlice %s %s %s)" % (self.expr(e.value, ctx), self._bound(e, idx.lower), self._bound(e, idx.upper))
        if isinstance(idx, ast.Tuple):
            if len(idx.elts) != 2 or any(isinstance(x, (ast.Slice, ast.Starred)) for x in idx.elts):
                self.err(e, "index tuple other than e[i, j]")
            return "(EIndex2 %s %s %s)" % (self.expr(e.value, ctx), self.expr(idx.elts[0], "use"), self.expr(idx.elts[1], "use"))
        if idx.__class__.__name__ == "ExtSlice":
            self.err(e, "extended slice")
        return "(EIndex %s %s)" % (self.expr(e.value, ctx), self.expr(idx, "use"))

    def call(self, e, ctx):
        if any(isinstance(a, ast.Starred) for a in e.args):
            self.err(e, "starred argument")
        f = e.func
        src = ast.unparse(e)[:60]
        if e.keywords:
            self.err(e, "keyword argument in `%s`" % src)
        if isinstance(f, ast.Name):
            if f.id == "min":
                if len(e.args) != 2:
                    self.err(e, "min with %d arguments" % len(e.args))
                return "(EMin %s %s)" % (self.expr(e.args[0], "use"), self.expr(e.args[1], "use"))
            if f.id == "len":
                if len(e.args) != 1:
                    self.err(e, "len arity")
                return "(ELen %s)" % self.expr(e.args[0], "use")
            if f.id == "float":
                if len(e.args) != 1:
                    self.err(e, "float arity")
                return "(EFloat %s)" % self.expr(e.args[0], "use")
            if f.id in self.callables:
                return "(ECall %s [%s])" % (_str(self.where, f, f.id), "; ".join(self.expr(a, "alias") for a in e.args))
            self.err(e, "call of %s" % f.id)
        if isinstance(f, ast.Attribute):
            if isinstance(f.value, ast.Name) and f.value.id == "np":
                if f.attr in NP_FUNCS:
                    if len(e.args) != 1:
                        self.err(e, "np.%s with %d arguments" % (f.attr, len(e.args)))
                    return "(ENp %s %s)" % (NP_FUNCS[f.attr], self.expr(e.args[0], "use"))
                if f.attr == "searchsorted":
                    if len(e.args) != 2:
                        self.err(e, "np.searchsorted with %d positional arguments" % len(e.args))
                    return "(ESearchsorted %s %s)" % (self.expr(e.args[0], "use"), self.expr(e.args[1], "use"))
                self.err(e, "np.%s" % f.attr)
            if f.attr == "ravel":
                if e.args:
                    self.err(e, "ravel with an argument in `%s`" % src)
                return "(ERavel %s)" % self.expr(f.value, ctx)
            if f.attr == "reshape":
                if len(e.args) != 1:
                    self.err(e, "reshape with %d arguments" % len(e.args))
                return "(EReshape %s %s)" % (self.expr(f.value, ctx), self.expr(e.args[0], "use"))
            self.err(e, "method .%s" % f.attr)
        self.err(e, "call `%s`" % src)

    # ---------------------------------------------------------------- statements
    def bind(self, node, name, rhs):
        _str(self.where, node, name)
        if name in RESERVED or name in self.callables:
            self.err(node, "assignment to %s" % name)
        self.bindings.setdefault(name, []).append(rhs)

    def block(self, body, top=False):
        out = []
        for k, st in enumerate(body):
            if top and k == 0 and _is_doc(st):
                continue
            out.append(self.stmt(st))
        return "[" + ";\n    ".join(out) + "]"

    def stmt(self, st):
        if isinstance(st, ast.Assign):
            if len(st.targets) != 1 or getattr(st, "type_comment", None):
                self.err(st, "chained assignment")
            t = st.targets[0]
            if isinstance(t, ast.Name):
                rhs = self.expr(st.value, "alias")
                self.bind(st, t.id, st.value)
                return "SAssign %s %s" % (_str(self.where, t, t.id), rhs)
            if isinstance(t, ast.Tuple):
                if not t.elts or not all(isinstance(x, ast.Name) for x in t.elts):
                    self.err(st, "unpacking target that is not a tuple of names")
                names = [x.id for x in t.elts]
                if len(set(names)) != len(names):
                    self.err(st, "repeated name in an unpacking")
                rhs = self.expr(st.value, "alias")
                for n in names:
                    self.bind(st, n, None)
                return "SUnpack [%s] %s" % ("; ".join(_str(self.where, t, n) for n in names), rhs)
            if isinstance(t, ast.Subscript) and isinstance(t.value, ast.Name):
                x = t.value.id
                if x in RESERVED or x in self.callables:
                    self.err(st, "store into %s" % x)
                self.mutated.setdefault(x, st)
                idx = self._slice_index(t)
                if isinstance(idx, ast.Slice):
                    if idx.step is not None:
                        self.err(st, "store into a slice with a step")
                    return "SSetSlice %s %s %s %s" % (_str(self.where, t, x), self._bound(st, idx.lower), self._bound(st, idx.upper),
                                                      self.expr(st.value, "use"))
                if isinstance(idx, ast.Tuple) or idx.__class__.__name__ == "ExtSlice":
                    self.err(st, "store with an index tuple")
                return "SSetIndex %s %s %s" % (_str(self.where, t, x), self.expr(idx, "use"), self.expr(st.value, "use"))
            self.err(st, "assignment target %s" % type(t).__name__)
        if isinstance(st, ast.If):
            return "SIf %s\n    %s\n    %s" % (self.expr(st.test, "use"), self.block(st.body), self.block(st.orelse))
        if isinstance(st, ast.Return):
            if st.value is None:
                self.err(st, "bare return")
            return "SReturn %s" % self.expr(st.value, "return")
        self.err(st, "statement %s (`%s`)" % (type(st).__name__, ast.unparse(st).splitlines()[0][:60]))

    def finish(self, node):
        for name, n in self.mutated.items():
            if name in self.params:
                self.err(n, "store into the parameter %s" % name)
            rhss = self.bindings.get(name, [])
            if not rhss:
                self.err(n, "store into %s, which is not bound in this function" % name)
            for rhs in rhss:
                fresh = (isinstance(rhs, ast.Call) and isinstance(rhs.func, ast.Attribute) and isinstance(rhs.func.value, ast.Name)
                         and rhs.func.value.id == "np" and rhs.func.attr in FRESH)
                if not fresh:
                    self.err(n, "%s is stored into but bound to something that is not a fresh array (np.zeros_like / np.empty_like / np.cumsum)" % name)
        for name, n in self.alias_loads:
            if name in self.mutated:
                self.err(n, "%s is stored into and read where a second reference to its buffer could be created" % name)


def _module_bindings(mod):
    """names bound at module scope (not inside def/class bodies), with the binding node"""
    out = []

    def visit(stmts):
        for st in stmts:
            if isinstance(st, (ast.FunctionDef, ast.AsyncFunctionDef, ast.ClassDef)):
                out.append((st.name, st))
                continue
            if isinstance(st, (ast.Import, ast.ImportFrom)):
                for a in st.names:
                    out.append(((a.asname or a.name).split(".")[0], st))
                continue
            for n in ast.walk(st):
                if isinstance(n, (ast.FunctionDef, ast.AsyncFunctionDef, ast.ClassDef, ast.Lambda)):
                    continue
                if isinstance(n, ast.Name) and isinstance(n.ctx, (ast.Store, ast.Del)):
                    out.append((n.id, st))
                if isinstance(n, (ast.Import, ast.ImportFrom)):
                    for a in n.names:
                        out.append(((a.asname or a.name).split(".")[0], n))
                if isinstance(n, (ast.FunctionDef, ast.AsyncFunctionDef, ast.ClassDef)):
                    out.append((n.name, n))
    visit(mod.body)
    return out


def _check_module(where, mod, func, callables):
    binds = _module_bindings(mod)
    for name, node in binds:
        if name == "np":
            ok = isinstance(node, ast.Import) and len(node.names) == 1 and node.names[0].name == "numpy" and node.names[0].asname == "np"
            if not ok:
                _err(where, node, "np is bound by something other than `import numpy as np`")
        if name in BUILTINS:
            _err(where, node, "the builtin %s is re-bound at module level" % name)
    for n in ast.walk(mod):
        if isinstance(n, ast.Global) and any(x in RESERVED or x == func or x in callables for x in n.names):
            _err(where, n, "global statement on a name the translation relies on")
    for c in callables:
        nodes = [node for name, node in binds if name == c]
        ok = (len(nodes) == 1 and isinstance(nodes[0], ast.ImportFrom) and nodes[0].level == 1 and nodes[0].module == "_common"
              and any(a.name == c and a.asname is None for a in nodes[0].names))
        if not ok:
            raise TranslateError("%s: %s is not bound exactly by `from ._common import %s`" % (where, c, c))
    defs = [node for name, node in binds if name == func]
    if len(defs) != 1 or not isinstance(defs[0], ast.FunctionDef) or defs[0] not in mod.body:
        raise TranslateError("%s: expected exactly one module-level `def %s`" % (where, func))
    uses_np = any(isinstance(n, ast.Name) and n.id == "np" for n in ast.walk(defs[0]))
    if uses_np and not any(name == "np" for name, _ in binds):
        raise TranslateError("%s: np is used without `import numpy as np`" % where)
    return defs[0]


def _params(where, fn):
    a = fn.args
    if fn.decorator_list:
        _err(where, fn, "decorated function")
    if fn.returns is not None or getattr(fn, "type_comment", None):
        _err(where, fn, "return annotation")
    if a.vararg or a.kwarg or a.kwonlyargs or a.kw_defaults or getattr(a, "posonlyargs", []):
        _err(where, fn, "*args / **kwargs / keyword-only / positional-only parameters")
    names = [x.arg for x in a.args]
    if any(x.annotation is not None for x in a.args):
        _err(where, fn, "annotated parameter")
    if len(set(names)) != len(names) or any(n in RESERVED for n in names):
        _err(where, fn, "parameter names %r" % names)
    defaults = [None] * (len(names) - len(a.defaults)) + list(a.defaults)
    out = []
    for n, d in zip(names, defaults):
        if d is None:
            out.append('(%s, None)' % _str(where, fn, n))
            continue
        iv = _int_literal(d)
        if iv is not None:
            out.append('(%s, Some (LInt %s))' % (_str(where, fn, n), _z(iv)))
        elif isinstance(d, ast.Constant) and isinstance(d.value, float) and d.value == d.value and abs(d.value) != float("inf") and d.value >= 0:
            q = Fraction(repr(d.value))   # the decimal literal as written
            out.append('(%s, Some (LFloat (%d # %d)))' % (_str(where, fn, n), q.numerator, q.denominator))
        else:
            _err(where, fn, "default of %s is neither an int nor a non-negative float literal" % n)
    return names, out


def translate_function(path, func, callables, gen_name):
    where = "%s::%s" % (os.path.basename(path), func)
    try:
        text = open(path).read()
    except OSError as e:
        raise TranslateError("cannot read %s: %s" % (path, e))
    try:
        mod = ast.parse(text, path)
    except SyntaxError as e:
        raise TranslateError("cannot parse %s: %s" % (path, e))
    fn = _check_module(where, mod, func, callables)
    names, params = _params(where, fn)
    for n in ast.walk(fn):
        if n is not fn and isinstance(n, (ast.FunctionDef, ast.AsyncFunctionDef, ast.ClassDef, ast.Lambda, ast.Global, ast.Nonlocal,
                                          ast.NamedExpr, ast.ListComp, ast.SetComp, ast.DictComp, ast.GeneratorExp, ast.Await,
                                          ast.Yield, ast.YieldFrom)):
            _err(where, n, "%s inside the function" % type(n).__name__)
    f = Fun(where, names, callables)
    body = f.block(fn.body, top=True)
    f.finish(fn)
    return ("(* %s *)\nDefinition %s : fn_desc := mkFn %s\n  [%s]\n  %s.\n"
            % (where, gen_name, _str(where, fn, func), "; ".join(params), body))


def generate(src=None):
    src = src or core.SRC
    out = [
        "(* generated by harness/py2coq_sa.py from the current source of bldfm; do not edit *)",
        "From Coq Require Import String List ZArith QArith.",
        "From BL Require Import Model.SourceArea Model.SADesc.",
        "Import ListNotations.",
        "Open Scope string_scope.",
        "Open Scope list_scope.",
        "",
    ]
    for gen_name, rel, func, callables in TARGETS:
        out.append(translate_function(os.path.join(src, "bldfm", rel), func, callables, gen_name))
    return "\n".join(out)


def run(ctx):
    """generate GenSA.v from the current source and re-prove Bridge/SABridge.v against it"""
    try:
        text = generate()
    except TranslateError as e:
        ctx.obligation("gen:GenSA.v", False, "array-program translator failed closed: %s" % e)
        return False
    ctx.cov["sa_programs_translated"] = [t[2] for t in TARGETS]
    ctx.cov["sa_program_statements"] = text.count("SAssign") + text.count("SUnpack") + text.count("SSetSlice") + text.count("SSetIndex") \
        + text.count("SIf") + text.count("SReturn")
    return core.run_bridge(ctx, {"GenSA.v": text}, ["SABridge.v"])


if __name__ == "__main__":
    import sys

    print(generate(sys.argv[1] if len(sys.argv) > 1 else None))
