"""High-precision (decimal, 60 digits) evaluation of the Kormann-Meixner chain, used ONLY to propose the
centres of the enclosures `lo <= X_of P <= hi` that Coq then proves with `interval` (a wrong hint makes the
proof fail; it cannot make a false statement pass).  Inputs are the exact values of the float arguments."""
from decimal import Decimal, getcontext
from fractions import Fraction

getcontext().prec = 60


def D(x):
    fr = Fraction(x)
    return Decimal(fr.numerator) / Decimal(fr.denominator)


def dpi():
    # Gauss-Legendre
    a, b, t, p = Decimal(1), Decimal(1) / Decimal(2).sqrt(), Decimal(1) / 4, Decimal(1)
    for _ in range(8):
        an = (a + b) / 2
        b = (a * b).sqrt()
        t -= p * (a - an) ** 2
        a = an
        p *= 2
    return (a + b) ** 2 / (4 * t)


PI = dpi()


def datan(t):
    t = Decimal(t)
    if t < 0:
        return -datan(-t)
    if t > 1:
        return PI / 2 - datan(1 / t)
    k = 0
    while t > Decimal("0.05"):
        t = t / (1 + (1 + t * t).sqrt())
        k += 1
    s, term, n, t2 = Decimal(0), t, 1, t * t
    while abs(term) > Decimal(10) ** -70:
        s += term / n
        term = -term * t2
        n += 2
    return s * (2 ** k)


def dpow(x, y):
    return (Decimal(y) * Decimal(x).ln()).exp()


def chain(zm, z0, ws, ustar, L, sv, ginvr=None):
    """returns dict of Decimal values of the model quantities"""
    zm, z0, ws, ustar, L, sv = map(D, (zm, z0, ws, ustar, L, sv))
    vk = Decimal(2) / 5
    o = {}
    if L < 0:
        base = 1 - 16 * zm / L
        zeta = dpow(base, Decimal(1) / 4)
        o["phiM"] = dpow(base, -Decimal(1) / 4)
        o["phiC"] = dpow(base, -Decimal(1) / 2)
        o["psiM"] = -2 * ((1 + zeta) / 2).ln() - ((1 + zeta * zeta) / 2).ln() + 2 * datan(zeta) - PI / 2
        o["n"] = (1 - 24 * zm / L) / (1 - 16 * zm / L)
    else:
        o["phiM"] = o["phiC"] = 1 + 5 * zm / L
        o["psiM"] = 5 * zm / L
        o["n"] = 1 / (1 + 5 * zm / L)
    o["m"] = ustar * o["phiM"] / (vk * ws)
    o["kappa"] = vk * zm * ustar / (o["phiC"] * dpow(zm, o["n"]))
    o["U"] = ustar * ((zm / z0).ln() + o["psiM"]) / (vk * dpow(zm, o["m"]))
    o["r"] = 2 + o["m"] - o["n"]
    o["mu"] = (1 + o["m"]) / o["r"]
    o["invr"] = 1 / o["r"]
    o["mr"] = o["m"] / o["r"]
    o["z0raw"] = zm * (o["psiM"] - vk * ws / ustar).exp()
    if o["U"] > 0:
        o["Xi"] = o["U"] * dpow(zm, o["r"]) / (o["r"] * o["r"] * o["kappa"])
        o["num"] = 1 / (2 * PI).sqrt() * dpow(o["Xi"], o["mu"])
        if ginvr is not None:
            o["A"] = o["U"] / (D(ginvr) * sv) * dpow(o["kappa"] * o["r"] * o["r"] / o["U"], o["mr"])
    return o


def enclosure(c, rel=Decimal("1e-25"), ab=Decimal("1e-45")):
    """rationals (lo, hi) with about 36 significant digits around the Decimal c"""
    import math

    w = abs(c) * rel + ab
    e = c.adjusted() if c != 0 else -40
    k = 36 - e
    sc = Decimal(10) ** k
    lo = Fraction(math.floor((c - w) * sc)) / Fraction(10) ** k
    hi = Fraction(math.ceil((c + w) * sc)) / Fraction(10) ** k
    return lo, hi
