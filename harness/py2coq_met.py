"""Fail-closed translator for bldfm.config_parser.MetConfig (tie B of C16).

Reads the CURRENT source of the dataclass `MetConfig` with `ast` and emits `GenMet.v`:

    gen_fields                : the dataclass fields, in order, with the kind of their default
    gen_n_timesteps_def, gen_get_step_def, gen_validate_def
                              : the three method bodies as terms of the deep embedding of coq/Model/MetPy.v
                                (statement by statement, expression by expression; nothing is elided except
                                docstrings and the message text of `raise`)
    gen_n_timesteps m, gen_get_step m i, gen_validate m
                              : the interpreter of MetPy.v applied to them, `self` being the record m

`coq/Bridge/MetBridge.v` then proves, for all m and i, that these equal the hand-written model of Model/Met.v.

The accepted fragment is exactly what the three methods use (MetPy.v gives it its meaning):
  self.<field> · getattr(self, e) · isinstance(e, list) · len(e) · e[i] · e is None / is not None ·
  one-operator comparisons · and / or / not · a if c else b · tuple displays · dict displays with string keys ·
  set(e) · set(e.values()) · x.pop() · calls of functions defined by a local `def` ·
  x = e · x[k] = e · if/elif/else · for x in <tuple display> · return · raise <Error>(<text>) · local def · pass
Everything else raises TranslateError — a new statement, decorator, method, field, default, keyword argument,
arithmetic, slice, comprehension, ...  Checks that keep the value semantics of MetPy.v faithful:
  * a name that is mutated (x[k] = v, x.pop()) is bound only by `x = {...}` / `x = set(...)`, is no parameter or
    loop variable, and occurs bare only as receiver of .values()/.pop(), argument of len, truth test, subscripted
    value or returned value (so no second reference to the same container can exist);
  * a local function does not read variables of the enclosing function; function names are not assigned to;
  * `self` occurs only as `self.<declared field>` and `getattr(self, ...)`;
  * the class is a plain `@dataclass` without bases, with exactly the three methods (`n_timesteps` a property),
    and nothing else in the module stores into `MetConfig.<attr>`.
"""
import ast

from py2coq import TranslateError

CLASS = "MetConfig"
METHODS = ("n_timesteps", "get_step", "validate")
EXN = {"ValueError": "ValueError", "IndexError": "IndexError", "KeyError": "KeyError", "TypeError": "TypeError"}
CMP = {ast.Eq: "CEq", ast.NotEq: "CNe", ast.Lt: "CLt", ast.LtE: "CLe", ast.Gt: "CGt", ast.GtE: "CGe"}
BUILTINS = {"isinstance", "len", "getattr", "set", "list"}


def _err(node, msg):
    raise TranslateError("MetConfig, line %s: %s" % (getattr(node, "lineno", "?"), msg))


def _ident(node, s):
    if not (isinstance(s, str) and s.isascii() and s.isidentifier()):
        _err(node, "identifier %r" % (s,))
    return s


def _str(node, s):
    if not isinstance(s, str) or any(ord(c) < 32 or ord(c) > 126 for c in s):
        _err(node, "string literal %r" % (s,))
    return '"%s"' % s.replace('"', '""')


def _is_doc(st):
    return isinstance(st, ast.Expr) and isinstance(st.value, ast.Constant) and isinstance(st.value.value, str)


def _plain_args(fn, first=None):
    a = fn.args
    if a.vararg or a.kwarg or a.kwonlyargs or a.kw_defaults or a.defaults or getattr(a, "posonlyargs", []):
        _err(fn, "function %s: only plain positional parameters without defaults" % fn.name)
    names = [_ident(fn, x.arg) for x in a.args]
    if len(set(names)) != len(names):
        _err(fn, "duplicate parameter")
    if first is not None:
        if not names or names[0] != first:
            _err(fn, "first parameter of %s must be %s" % (fn.name, first))
        names = names[1:]
    if "self" in names:
        _err(fn, "parameter named self")
    return names


class Fun:
    """translation of one function body (a method, or a local def nested in it)"""

    def __init__(self, fields, params, outer_funs=(), nested=False):
        self.fields = fields
        self.params = list(params)
        self.funs = set(outer_funs)  # local functions callable here (defined earlier in the enclosing body)
        self.all_funs = set(outer_funs)
        self.nested = nested
        self.assigned = set()
        self.loopvars = set()
        self.loads = []  # (name, node, context) of every bare local-name read
        self.mutated = {}  # name -> node
        self.bindings = {}  # name -> list of rhs ast nodes

    # ---- expressions; ctx says in which position a bare name is read
    def expr(self, e, ctx="value"):
        if isinstance(e, ast.Constant):
            v = e.value
            if v is None:
                return "ENone"
            if isinstance(v, bool):
                _err(e, "boolean literal")
            if isinstance(v, int):
                if v < 0 or v > 1000:
                    _err(e, "integer literal %r" % v)
                return "(EInt %d)" % v
            if isinstance(v, str):
                return "(EStr %s)" % _str(e, v)
            _err(e, "literal %r" % (v,))
        if isinstance(e, ast.Name):
            if not isinstance(e.ctx, ast.Load):
                _err(e, "name in store position")
            if e.id == "self":
                _err(e, "bare use of self")
            if e.id in BUILTINS:
                _err(e, "builtin %s used as a value" % e.id)
            self.loads.append((e.id, e, ctx))
            return "(EVar %s)" % _str(e, _ident(e, e.id))
        if isinstance(e, ast.Attribute):
            if isinstance(e.value, ast.Name) and e.value.id == "self" and isinstance(e.ctx, ast.Load):
                if e.attr not in self.fields:
                    _err(e, "self.%s is not a dataclass field" % e.attr)
                return "(ESelf %s)" % _str(e, e.attr)
            _err(e, "attribute access other than self.<field>")
        if isinstance(e, ast.Call):
            return self.call(e, ctx)
        if isinstance(e, ast.Subscript):
            if not isinstance(e.ctx, ast.Load):
                _err(e, "subscript in store position")
            idx = e.slice
            if idx.__class__.__name__ == "Index":  # python < 3.9
                idx = idx.value
            if isinstance(idx, (ast.Slice, ast.Tuple)) or idx.__class__.__name__ == "ExtSlice":
                _err(e, "slice")
            return "(EIndex %s %s)" % (self.expr(e.value, "subscripted"), self.expr(idx))
        if isinstance(e, ast.Compare):
            if len(e.ops) != 1 or len(e.comparators) != 1:
                _err(e, "comparison chain")
            op, rhs = e.ops[0], e.comparators[0]
            if isinstance(op, (ast.Is, ast.IsNot)):
                if not (isinstance(rhs, ast.Constant) and rhs.value is None):
                    _err(e, "`is` with something other than None")
                return "(%s %s)" % ("EIsNone" if isinstance(op, ast.Is) else "EIsNotNone", self.expr(e.left))
            if type(op) in CMP:
                return "(ECmp %s %s %s)" % (CMP[type(op)], self.expr(e.left), self.expr(rhs))
            _err(e, "comparison operator %s" % type(op).__name__)
        if isinstance(e, ast.BoolOp):
            con = "EAnd" if isinstance(e.op, ast.And) else "EOr"
            # `a and b` yields one of its operands: they are mere truth tests only when the whole expression is one
            parts = [self.expr(v, "test" if ctx == "test" else "value") for v in e.values]
            out = parts[-1]
            for p in reversed(parts[:-1]):
                out = "(%s %s %s)" % (con, p, out)
            return out
        if isinstance(e, ast.UnaryOp) and isinstance(e.op, ast.Not):
            return "(ENot %s)" % self.expr(e.operand, "test")
        if isinstance(e, ast.IfExp):
            return "(EIfExp %s %s %s)" % (self.expr(e.test, "test"), self.expr(e.body), self.expr(e.orelse))
        if isinstance(e, ast.Tuple):
            if not isinstance(e.ctx, ast.Load) or any(isinstance(x, ast.Starred) for x in e.elts):
                _err(e, "tuple pattern / starred element")
            return "(ETuple [%s])" % "; ".join(self.expr(x) for x in e.elts)
        if isinstance(e, ast.Dict):
            items = []
            for k, v in zip(e.keys, e.values):
                if not (isinstance(k, ast.Constant) and isinstance(k.value, str)):
                    _err(e, "dict display key that is not a string literal")
                items.append("(%s, %s)" % (_str(k, k.value), self.expr(v)))
            return "(EDict [%s])" % "; ".join(items)
        _err(e, "expression %s" % type(e).__name__)

    def call(self, e, ctx):
        if e.keywords or any(isinstance(a, ast.Starred) for a in e.args):
            _err(e, "keyword / starred argument")
        f = e.func
        if isinstance(f, ast.Name):
            if f.id in self.funs:
                return "(ECall %s [%s])" % (_str(f, f.id), "; ".join(self.expr(a) for a in e.args))
            if f.id == "isinstance":
                if len(e.args) != 2 or not (isinstance(e.args[1], ast.Name) and e.args[1].id == "list"):
                    _err(e, "isinstance(_, <not list>)")
                return "(EIsList %s)" % self.expr(e.args[0])
            if f.id == "len":
                if len(e.args) != 1:
                    _err(e, "len arity")
                return "(ELen %s)" % self.expr(e.args[0], "len")
            if f.id == "getattr":
                if len(e.args) != 2 or not (isinstance(e.args[0], ast.Name) and e.args[0].id == "self"):
                    _err(e, "getattr other than getattr(self, name)")
                return "(EGetattr %s)" % self.expr(e.args[1])
            if f.id == "set":
                if len(e.args) != 1:
                    _err(e, "set arity")
                a = e.args[0]
                if (isinstance(a, ast.Call) and isinstance(a.func, ast.Attribute) and a.func.attr == "values"
                        and not a.args and not a.keywords):
                    return "(ESet (EValues %s))" % self.expr(a.func.value, "receiver")
                return "(ESet %s)" % self.expr(a)
            _err(e, "call of %s" % f.id)
        if isinstance(f, ast.Attribute) and f.attr == "pop" and isinstance(f.value, ast.Name) and not e.args:
            x = f.value.id
            if x == "self" or x in BUILTINS:
                _err(e, "pop on %s" % x)
            self.mutated.setdefault(x, e)
            self.loads.append((x, f.value, "receiver"))
            return "(EPop %s)" % _str(e, _ident(e, x))
        _err(e, "call %s" % ast.dump(f)[:80])

    # ---- statements
    def bind(self, node, name, rhs):
        _ident(node, name)
        if name == "self" or name in BUILTINS or name in self.all_funs:
            _err(node, "assignment to %s" % name)
        self.assigned.add(name)
        self.bindings.setdefault(name, []).append(rhs)

    def block(self, body, top=False):
        out = []
        for k, st in enumerate(body):
            if top and k == 0 and _is_doc(st):
                continue
            out += self.stmt(st)
        return out

    def stmt(self, st):
        if isinstance(st, ast.Pass):
            return []
        if isinstance(st, ast.Assign):
            if len(st.targets) != 1:
                _err(st, "chained assignment")
            t = st.targets[0]
            if isinstance(t, ast.Name):
                rhs = self.expr(st.value)
                self.bind(st, t.id, st.value)
                return ["SAssign %s %s" % (_str(t, t.id), rhs)]
            if isinstance(t, ast.Subscript) and isinstance(t.value, ast.Name):
                x = t.value.id
                if x == "self" or x in BUILTINS:
                    _err(st, "item assignment on %s" % x)
                idx = t.slice
                if idx.__class__.__name__ == "Index":
                    idx = idx.value
                if isinstance(idx, (ast.Slice, ast.Tuple)):
                    _err(st, "slice assignment")
                self.mutated.setdefault(x, st)
                return ["SSetItem %s %s %s" % (_str(t, _ident(t, x)), self.expr(idx), self.expr(st.value))]
            _err(st, "assignment target %s" % type(t).__name__)
        if isinstance(st, ast.If):
            c = self.expr(st.test, "test")
            return ["SIf %s %s %s" % (c, self.blk(st.body), self.blk(st.orelse))]
        if isinstance(st, ast.For):
            if st.orelse or getattr(st, "type_comment", None):
                _err(st, "for ... else")
            if not isinstance(st.target, ast.Name):
                _err(st, "loop target")
            if not isinstance(st.iter, ast.Tuple):
                _err(st, "loop over something that is not a tuple display")
            it = self.expr(st.iter)
            self.bind(st, st.target.id, None)
            self.loopvars.add(st.target.id)
            return ["SFor %s %s %s" % (_str(st, st.target.id), it, self.blk(st.body))]
        if isinstance(st, ast.Return):
            return ["SReturn %s" % ("ENone" if st.value is None else self.expr(st.value, "return"))]
        if isinstance(st, ast.Raise):
            ex = st.exc
            if st.cause is not None or not (isinstance(ex, ast.Call) and isinstance(ex.func, ast.Name)
                                            and ex.func.id in EXN and not ex.keywords and len(ex.args) == 1
                                            and (isinstance(ex.args[0], ast.JoinedStr)
                                                 or (isinstance(ex.args[0], ast.Constant) and isinstance(ex.args[0].value, str)))):
                _err(st, "raise other than raise <ValueError|IndexError|KeyError|TypeError>(<text>)")
            return ["SRaise %s" % EXN[ex.func.id]]
        if isinstance(st, ast.FunctionDef):
            if st.decorator_list:
                _err(st, "decorated local function")
            name = _ident(st, st.name)
            if name in BUILTINS or name == "self" or name in self.all_funs or name in self.assigned or name in self.params:
                _err(st, "local function name %s" % name)
            ps = _plain_args(st)
            inner = Fun(self.fields, ps, outer_funs=self.funs, nested=True)
            body = inner.block(st.body, top=True)
            inner.finish(st)
            self.funs.add(name)
            self.all_funs.add(name)
            return ["SDef %s [%s] %s" % (_str(st, name), "; ".join(_str(st, p) for p in ps), _blk(body))]
        _err(st, "statement %s" % type(st).__name__)

    def blk(self, body):
        return _blk(self.block(body))

    def finish(self, node):
        bound = set(self.params) | self.assigned
        if self.all_funs & bound:
            _err(node, "a local function name is also a variable")
        if self.nested:
            for name, n, _ in self.loads:
                if name not in bound:
                    _err(n, "local function reads %s of the enclosing scope" % name)
        for name, n in self.mutated.items():
            if name in self.params or name in self.loopvars:
                _err(n, "mutation of parameter / loop variable %s" % name)
            for rhs in self.bindings.get(name, []):
                fresh = isinstance(rhs, ast.Dict) or (
                    isinstance(rhs, ast.Call) and isinstance(rhs.func, ast.Name) and rhs.func.id == "set")
                if not fresh:
                    _err(n, "mutated name %s is bound to something that is not a fresh dict/set" % name)
        for name, n, ctx in self.loads:
            if name in self.mutated and ctx not in ("receiver", "len", "test", "subscripted", "return"):
                _err(n, "mutated container %s escapes (used as %s)" % (name, ctx))


def _blk(items):
    return "[" + "; ".join(items) + "]" if items else "[]"


def _field_default(node):
    v = node.value
    if v is None:
        return "DRequired"
    if isinstance(v, ast.UnaryOp) and isinstance(v.op, (ast.USub, ast.UAdd)):
        v = v.operand
    if isinstance(v, ast.Constant):
        if v.value is None:
            return "DNone"
        if isinstance(v.value, (int, float)) and not isinstance(v.value, bool):
            return "DScalar"
    _err(node, "field default that is neither absent, None nor a number")


def translate_source(text, filename="config_parser.py"):
    try:
        mod = ast.parse(text, filename)
    except SyntaxError as e:
        raise TranslateError("cannot parse %s: %s" % (filename, e))
    classes = [n for n in ast.walk(mod) if isinstance(n, ast.ClassDef) and n.name == CLASS]
    if len(classes) != 1 or classes[0] not in mod.body:
        raise TranslateError("expected exactly one module-level class %s" % CLASS)
    cls = classes[0]
    for n in ast.walk(mod):
        if isinstance(n, ast.Attribute) and isinstance(n.value, ast.Name) and n.value.id == CLASS and not isinstance(n.ctx, ast.Load):
            _err(n, "store into %s.%s outside the class body" % (CLASS, n.attr))
        if isinstance(n, ast.Call) and isinstance(n.func, ast.Name) and n.func.id in ("setattr", "delattr") and n.args \
                and isinstance(n.args[0], ast.Name) and n.args[0].id == CLASS:
            _err(n, "setattr on %s" % CLASS)
        if isinstance(n, (ast.Assign, ast.AugAssign, ast.AnnAssign)):
            ts = n.targets if isinstance(n, ast.Assign) else [n.target]
            for t in ts:
                if isinstance(t, ast.Name) and t.id == CLASS:
                    _err(n, "re-binding of %s" % CLASS)
        if isinstance(n, ast.ClassDef) and any(isinstance(b, ast.Name) and b.id == CLASS for b in n.bases):
            _err(n, "subclass of %s" % CLASS)
    if cls.bases or cls.keywords:
        _err(cls, "base classes / class keywords")
    if len(cls.decorator_list) != 1 or not (isinstance(cls.decorator_list[0], ast.Name) and cls.decorator_list[0].id == "dataclass"):
        _err(cls, "class decorators other than a plain @dataclass")
    fields, methods = [], {}
    for k, st in enumerate(cls.body):
        if k == 0 and _is_doc(st):
            continue
        if isinstance(st, ast.AnnAssign):
            if not isinstance(st.target, ast.Name) or not st.simple:
                _err(st, "field declaration")
            if methods:
                _err(st, "field declared after a method")
            for n in ast.walk(st.annotation):
                nm = n.id if isinstance(n, ast.Name) else n.attr if isinstance(n, ast.Attribute) else None
                if nm in ("ClassVar", "InitVar", "KW_ONLY") or (isinstance(n, ast.Constant) and isinstance(n.value, str)):
                    _err(st, "ClassVar / InitVar / string annotation")
            fields.append((_ident(st, st.target.id), _field_default(st)))
        elif isinstance(st, ast.FunctionDef):
            if st.name not in METHODS or st.name in methods:
                _err(st, "unexpected method %s" % st.name)
            methods[st.name] = st
        else:
            _err(st, "class-body statement %s" % type(st).__name__)
    missing = [m for m in METHODS if m not in methods]
    if missing:
        raise TranslateError("MetConfig: missing method(s) %s" % missing)
    names = [f for f, _ in fields]
    if len(set(names)) != len(names):
        raise TranslateError("MetConfig: duplicate field")
    defs, params = {}, {}
    for m in METHODS:
        fn = methods[m]
        decos = fn.decorator_list
        if m == "n_timesteps":
            if len(decos) != 1 or not (isinstance(decos[0], ast.Name) and decos[0].id == "property"):
                _err(fn, "n_timesteps must be a plain @property")
        elif decos:
            _err(fn, "decorated method %s" % m)
        ps = _plain_args(fn, first="self")
        if len(ps) != (1 if m == "get_step" else 0):
            _err(fn, "parameters of %s" % m)
        f = Fun(set(names), ps)
        body = f.block(fn.body, top=True)
        f.finish(fn)
        defs[m], params[m] = body, ps
    out = [
        "(* generated by harness/py2coq_met.py from %s (class MetConfig); do not edit *)" % filename,
        "From Coq Require Import List String.",
        "From BL Require Import Model.Met Model.MetPy.",
        "Import ListNotations.",
        "Open Scope string_scope.",
        "Open Scope list_scope.",
        "",
        "Definition gen_fields : list (string * dflt) :=",
        "  [%s]." % "; ".join('("%s", %s)' % fd for fd in fields),
        "",
    ]
    for m in METHODS:
        out.append("Definition gen_%s_def : fundef := mkFun [%s] [" % (m, "; ".join('"%s"' % p for p in params[m])))
        out.append(";\n".join("  " + s for s in defs[m]) + "].")
        out.append("")
    out += [
        "Definition gen_n_timesteps {A T : Type} (m : met A T) : res (value A T) :=",
        "  call_method m gen_n_timesteps_def [].",
        "Definition gen_get_step {A T : Type} (m : met A T) (i : nat) : res (value A T) :=",
        "  call_method m gen_get_step_def [VInt i].",
        "Definition gen_validate {A T : Type} (m : met A T) : res (value A T) :=",
        "  call_method m gen_validate_def [].",
        "",
    ]
    return "\n".join(out)


def translate(path):
    try:
        text = open(path).read()
    except OSError as e:
        raise TranslateError("cannot read %s: %s" % (path, e))
    return translate_source(text, path)


if __name__ == "__main__":
    import sys

    print(translate(sys.argv[1] if len(sys.argv) > 1 else "/repo/src/bldfm/config_parser.py"))
